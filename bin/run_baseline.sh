#!/bin/sh
# runs the repository's pinned test suite (BASELINE.json command) and prints the pass/fail summary
REPO="${1:-/repo}"
cd "$REPO" && /venv/bin/python -m pytest -ra -q -p no:cacheprovider --timeout=900 --continue-on-collection-errors 2>&1 | tail -6
