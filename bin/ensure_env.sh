#!/bin/sh
# Builds /verif/.overlay (z3-solver + crosshair-tool for /venv's python 3.12) offline from the wheelhouse.
# Idempotent; every check calls it, MANIFEST.setup_cmd calls it once.
set -e
HERE="$(cd "$(dirname "$0")/.." && pwd)"
OV="$HERE/.overlay"
STAMP="$OV/.stamp-v1"
if [ -f "$STAMP" ]; then exit 0; fi
LOCK="$HERE/.overlay.lock"
exec 9>"$LOCK"
flock 9
if [ -f "$STAMP" ]; then exit 0; fi
rm -rf "$OV"
mkdir -p "$OV"
PIP_NO_INDEX=1 /venv/bin/python -m pip install --quiet --no-index --find-links /opt/veriftools/wheels \
    --target "$OV" z3-solver crosshair-tool >/dev/null 2>"$OV/pip.err" || { cat "$OV/pip.err" >&2; exit 3; }
touch "$STAMP"
