#!/venv/bin/python
"""Regenerates MANIFEST.json from the table below (properties without a check go to not_applicable)."""
import json, os, sys
HERE = os.path.dirname(os.path.dirname(os.path.abspath(__file__)))
E1 = ("other", "Bounded SMT verification of the real code: QuCumber's own functions are executed on symbolic tensors "
      "(vf.symtorch), every goal is an identity / sign claim over ALL real parameter values within the stated structural "
      "bounds and is decided by z3 on the normal-form residual (unsat = holds; sat = counterexample replayed on real torch). "
      "Not a proof: every claim carries a bound (architectures, qubits, batch sizes).")
E1_NOTE = ("Trusted: vf/symtorch.py (exact real-number model of the torch primitives; cross-validated against real torch on every run), "
           "vf/poly.py + vf/solve.py (normal-form rewriting; float cross-check on every query), z3 5.1.0. Floating-point effects are outside the claim.")
CHECKS = {
 "C01": dict(engine="symtorch+z3", tech="symbolic execution of psi/probability/normalization + z3 on normal-form residuals", design="2/C01"),
 "C02": dict(engine="symtorch+z3", tech="symbolic execution of rho/pi/gamma + z3 on normal-form residuals; PSD via Gram identity + sum of squares", design="2/C02"),
 "C03": dict(engine="symtorch+z3", tech="symbolic execution of the gradient methods vs symbolic derivative of the NLL; z3 on normal-form residuals", design="2/C03"),
 "C04": dict(engine="symtorch+z3", tech="symbolic execution of the rotation routines on symbolic psi/rho vs dense Kronecker reference; z3 on residuals", design="2/C04"),
 "C05": dict(engine="symtorch+z3", tech="symbolic execution of gibbs_steps with a recording Bernoulli stub (all outcomes unrolled); conditionals, termwise detailed balance and chain structure decided by z3 on residuals", design="2/C05"),
 "C08": dict(engine="symtorch+z3", tech="symbolic execution of the observables' apply on the full basis, exactly weighted, vs Tr(rho O) from Pauli definitions; z3 on residuals", design="2/C08"),
 "C09": dict(engine="symtorch+z3", tech="symbolic execution of SWAP.apply on all ordered pairs, exactly weighted, vs explicit partial trace; sum-of-squares certificate; z3 on residuals", design="2/C09"),
 "C10": dict(engine="symtorch+z3", tech="symbolic execution of fidelity/NLL/KL with symbolic models and symbolic targets vs the defining formulas; opaque logs with normal-form congruence; z3 on residuals", design="2/C10"),
 "C12": dict(engine="pathfork", level=("model_checking", "Path-by-path symbolic execution of the real fit/callback code: z3 decides the feasibility of every branch on the symbolic inputs (pathfork), every feasible path within the stated bounds is executed on the real code and checked against a reference generator of the documented protocol. Bounded (epoch ranges, batch counts), exhaustive within the bounds."), note="Trusted: vf/pathfork.py (fork-on-branch executor), z3; numerics of the batch update are stubbed (listed in the evidence).", tech="pathfork: z3-decided path exploration of the real fit loop vs a reference protocol generator", design="2/C12"),
 "C17": dict(engine="pathfork", level=("model_checking", "Path-by-path symbolic execution of the real callback / training-loop code: z3 decides the feasibility of every branch on the symbolic inputs (pathfork), every feasible path within the stated bounds is executed on the real code and compared with an independent reference. Bounded, exhaustive within the bounds."), note="Trusted: vf/pathfork.py (fork-on-branch executor), z3; stubs listed in the evidence.", tech="pathfork: z3-decided path exploration of the real fit loop with periodic callbacks (real files via torch.save/load) vs an independent record", design="2/C17"),
 "C18": dict(engine="pathfork", level=("model_checking", "Path-by-path symbolic execution of the real callback / training-loop code: z3 decides the feasibility of every branch on the symbolic inputs (pathfork), every feasible path within the stated bounds is executed on the real code and compared with an independent reference. Bounded, exhaustive within the bounds."), note="Trusted: vf/pathfork.py (fork-on-branch executor), z3; stubs listed in the evidence.", tech="pathfork with symbolic REAL metric sequences: z3 decides every comparison of the real EarlyStopping code; stop epoch vs reference rule", design="2/C18"),
 "C13": dict(engine="pathfork", level=("model_checking", "Path-by-path symbolic execution of the real statistics code: z3 decides the feasibility of every branch on the symbolic inputs (pathfork); the merge routine is checked for ALL real data (symbolic real sums) and bounded block sizes, the sampling schedule for all bounded (num_samples, num_chains, burn_in, steps). Bounded, exhaustive within the bounds."), note="Trusted: vf/pathfork.py, z3; nn_state.sample is a recording stub (the chain itself is C05).", tech="pathfork: real _update_statistics on symbolic real sufficient statistics (z3 decides equality with the union's statistics); schedule/chunking paths of the real statistics() vs one-pass statistics", design="2/C13"),
 "C07": dict(engine="symtorch+z3", tech="real fit/_shuffle_data executed with a SYMBOLIC permutation (z3 Int index vectors, Distinct) and symbolic randint draws; one z3 query per epoch over all permutations decides pairing / partition / negative-row source", design="2/C07"),
 "C16": dict(engine="symtorch+z3", tech="structural induction: one solver-checked step per operator overload with stub children returning arbitrary symbolic vectors; z3 on residuals; random trees vs interpreter", design="2/C16"),
 "C20": dict(engine="symtorch+z3", tech="symbolic execution of constructors / reinitialise / fit guards / a symbolic SGD training run with a symbolic random tape; identities decided by z3, identity/independence facts executed", design="2/C20"),
 "C06": dict(engine="symtorch+z3", tech="real fit loop executed with symbolic parameters, symbolic learning rate and scripted randomness; per-parameter .grad and SGD update identities decided by z3 on residuals; optimizer/scheduler call counts by pathfork", design="2/C06"),
 "C19": dict(engine="symtorch+z3", tech="index routine on symbolic rows (linear identity by z3), site order via symbolic psi rotation vs Kronecker reference; pathfork enumeration of spaces / indices / basis-letter patterns within the bound", design="2/C19"),
 "C11": dict(engine="pathfork", level=("model_checking", "Path-by-path exploration (pathfork) of operation histories on the real save / load / autoload code with real files: z3 enumerates every operation sequence within the bound; after every step the state is compared bit-for-bit with an independent record. Bounded (history length, two files), exhaustive within the bounds."), note="Trusted: vf/pathfork.py, z3, torch.save/torch.load themselves (used, not modelled).", tech="pathfork over operation histories (symbolic op codes enumerated by z3) on the real save/load/autoload with real files; bit-for-bit comparison with an independent record", design="2/C11"),
 "C14": dict(engine="symtorch+z3", tech="symbolic execution with a scripted torch random tape and trapped foreign RNGs: seed forwarding, non-interference (two runs, identical symbolic results; residuals to z3), read-only evaluation (parameters keep their symbolic identity) over ~45 public operations", design="2/C14"),
 "C15": dict(engine="symtorch+z3", tech="symbolic execution of every cplx function vs complex-scalar arithmetic; z3 on residuals", design="2/C15"),
}
CHECKS.update(json.load(open(os.path.join(HERE, "bin", "manifest_extra.json"))) if os.path.exists(os.path.join(HERE, "bin", "manifest_extra.json")) else {})
NA_REASON = {}
props = [json.loads(l) for l in open(os.path.join(HERE, "properties.jsonl"))]
checks = []
for p in props:
    c = CHECKS.get(p["id"])
    if not c:
        continue
    cat, text = c.get("level", E1)
    checks.append(dict(
        property_id=p["id"], quick_cmd="bin/check %s quick" % p["id"], thorough_cmd="bin/check %s thorough" % p["id"],
        evidence_file="evidence/%s.json" % p["id"], replay_cmd_template="bin/replay {path}", engine=c["engine"],
        level_claimed=dict(category=cat, text=text, design_ref="DESIGN.md section " + c["design"]),
        level_note=c.get("note", E1_NOTE), technique=c["tech"]))
m = dict(version=1, setup_cmd="bin/ensure_env.sh",
    hooks=dict(guard="QUCUMBER_VERIF", enable="n/a: no source hooks are needed; the checks import qucumber from /repo's working tree (VERIF_REPO overrides the path)",
               baseline_off_cmd="cd /repo && /venv/bin/python -m pytest -ra -q -p no:cacheprovider --timeout=900 --continue-on-collection-errors",
               source_commits=[], add_only=True),
    engines=[dict(name="symtorch+z3", path="vf/", serves_properties=[k for k, v in CHECKS.items() if v["engine"].startswith("symtorch")],
                  kind_free_text="symbolic execution of the repository's Python source on a pure-Python torch model with symbolic scalars; exact polynomial normal forms; z3 (QF_NRA/QF_LRA) decides every residual / sign query"),
             dict(name="pathfork/crosshair", path="vf/pathfork.py", serves_properties=[k for k, v in CHECKS.items() if not v["engine"].startswith("symtorch")],
                  kind_free_text="path-by-path symbolic execution of the real control flow (z3 decides branch feasibility; CrossHair where it applies)")],
    checks=checks,
    notes="exit codes of every check: 0 = held on everything explored, 1 = violation (VIOLATION line, replay file), 2 = inconclusive (never a pass). See DESIGN.md.",
    not_applicable=[dict(property_id=p["id"], reason=NA_REASON.get(p["id"], "check not built yet (build in progress, see DESIGN.md section 2)")) for p in props if p["id"] not in CHECKS])
json.dump(m, open(os.path.join(HERE, "MANIFEST.json"), "w"), indent=1)
print("checks:", [c["property_id"] for c in checks], "n/a:", [x["property_id"] for x in m["not_applicable"]])
