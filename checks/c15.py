"""C15 The complex-tensor kernel agrees with complex arithmetic."""
import itertools
import numpy as np
from vf import harness

PID = "C15"

META = dict(
    level="other",
    explanation="bounded SMT verification: every function of qucumber.utils.cplx is executed on fully symbolic real-pair "
    "tensors (one free real variable per real / imaginary entry) and each output entry is compared, as an identity over "
    "all real values decided by z3 on the normal-form residual, with the same operation on complex scalars; the error "
    "paths are executed concretely",
    functions=["qucumber/utils/cplx.py: make_complex, numpy, real, imag, scalar_mult (+out=), matmul, inner_prod, outer_prod, einsum, "
               "conjugate, conj, elementwise_mult, elementwise_division, absolute_value, kronecker_prod, sigmoid, scalar_divide, inverse, norm_sqr, norm, I"],
    bounds=dict(quick="shape classes: scalar [2], vectors [2,k] k in {1,2,3}, matrices [2,k,l] with (k,l) in {(1,1),(2,3),(3,1),(2,2)}, rank-4 batches [2,2,1,2,3]; dirty / reused out= buffers; matrix square with one tensor object; sigmoid at concrete arguments in all quadrants; result dtypes",
                thorough="additionally (k,l) in {(3,3),(1,3),(3,2)}, vectors k=4, rank-4 [2,3,2,2,2] and rank-5 conjugate"),
    outside=["empty dimensions", "dtype promotion beyond what the shim self-test against real torch pins down", "floating point (division by values near 0)"],
    stubs=["torch -> vf.symtorch", "numpy ufuncs on object arrays in cplx.sigmoid -> vf.shim.NPProxy"],
)


def ct(B, tag, shape):
    """a symbolic complex tensor [2, *shape] and the array of its complex scalars"""
    O = B.O
    re, im = B.params(tag + ".re", shape), B.params(tag + ".im", shape)
    t = B.tensor(np.stack([re, im]))
    z = np.empty(shape, dtype=object)
    for idx in np.ndindex(*shape):
        z[idx] = O.cplx(re[idx], im[idx])
    if shape == ():
        z = z[()]
    return t, z


def cmp(B, G, name, out, ref):
    """out: library real-pair tensor; ref: array (or scalar) of complex oracle scalars"""
    O = B.O
    a = B.scalars(out)
    ref = np.asarray(ref, dtype=object)
    G.fact(name + ".shape", tuple(a.shape) == (2,) + tuple(ref.shape), "%s vs %s" % (tuple(a.shape), (2,) + tuple(ref.shape)))
    if B.is_tensor(out):  # all operands are double precision: so is the result (a float32 buffer would round every entry)
        G.fact(name + ".dtype", out.dtype == B.torch.double, "result dtype %s" % (out.dtype,))
    if tuple(a.shape) != (2,) + tuple(ref.shape):
        return
    for idx in np.ndindex(*ref.shape):
        tag = "%s%s" % (name, list(idx))
        G.eq(tag + ".re", a[(0,) + idx], O.re(ref[idx]))
        G.eq(tag + ".im", a[(1,) + idx], O.im(ref[idx]))


def cmp_real(B, G, name, out, ref):
    a = B.scalars(out)
    ref = np.asarray(ref, dtype=object)
    G.fact(name + ".shape", tuple(a.shape) == tuple(ref.shape), "%s vs %s" % (tuple(a.shape), tuple(ref.shape)))
    if B.is_tensor(out):
        G.fact(name + ".dtype", out.dtype == B.torch.double, "result dtype %s" % (out.dtype,))
    if tuple(a.shape) != tuple(ref.shape):
        return
    for idx in np.ndindex(*ref.shape):
        G.eq("%s%s" % (name, list(idx)), a[idx], ref[idx])


def raises(G, name, exc, fn):
    try:
        fn()
    except exc as e:
        G.fact(name, True, "raised %s" % type(e).__name__)
        return
    except Exception as e:  # noqa: BLE001
        G.fact(name, False, "raised %s instead of %s" % (type(e).__name__, getattr(exc, "__name__", exc)))
        return
    G.fact(name, False, "no exception (expected %s)" % (getattr(exc, "__name__", exc),))


def vmap(f, z):
    out = np.empty(np.shape(z), dtype=object)
    for idx in np.ndindex(*np.shape(z)):
        out[idx] = f(z[idx])
    return out


def basic(B, G, k, l):
    """construction, conversion, products, conjugation, division, modulus for vectors [2,k] and matrices [2,k,l]"""
    from qucumber.utils import cplx

    O = B.O
    torch = B.torch
    s, zs = ct(B, "s", ())
    s2, zs2 = ct(B, "t", ())
    x, zx = ct(B, "x", (k,))
    y, zy = ct(B, "y", (k,))
    w, zw = ct(B, "w", (l,))
    M, zM = ct(B, "M", (k, l))
    N, zN = ct(B, "N", (l, k))
    P, zP = ct(B, "P", (k, l))
    # construction / conversion
    re, im = B.params("a.re", (k, l)), B.params("a.im", (k, l))
    mc = cplx.make_complex(B.tensor(re), B.tensor(im))
    cmp(B, G, "make_complex(x,y)", mc, vmap(lambda i: i, np.vectorize(O.cplx, otypes=[object])(re, im)))
    mc0 = cplx.make_complex(B.tensor(re))
    cmp(B, G, "make_complex(x)", mc0, np.vectorize(lambda r: O.cplx(r), otypes=[object])(re))
    cmp_real(B, G, "real", cplx.real(M), np.vectorize(O.re, otypes=[object])(zM))
    cmp_real(B, G, "imag", cplx.imag(M), np.vectorize(O.im, otypes=[object])(zM))
    nz = cplx.numpy(M)
    G.fact("numpy.shape", tuple(nz.shape) == (k, l), nz.shape)
    for idx in np.ndindex(k, l):
        G.eq("numpy%s.re" % list(idx), O.re(nz[idx]), O.re(zM[idx]))
        G.eq("numpy%s.im" % list(idx), O.im(nz[idx]), O.im(zM[idx]))
    back = cplx.make_complex(nz)
    cmp(B, G, "make_complex(numpy(x))", back, zM)
    # scalar_mult family
    cmp(B, G, "scalar_mult(s,t)", cplx.scalar_mult(s, s2), zs * zs2)
    cmp(B, G, "scalar_mult(s,x)", cplx.scalar_mult(s, x), vmap(lambda v: zs * v, zx))
    cmp(B, G, "scalar_mult(x,y)", cplx.scalar_mult(x, y), vmap(lambda i: i, zx * zy))
    cmp(B, G, "elementwise_mult(M,P)", cplx.elementwise_mult(M, P), zM * zP)
    Ms = cplx.scalar_mult(M, s.unsqueeze(1).unsqueeze(2)) if hasattr(s, "unsqueeze") else None
    cmp(B, G, "scalar_mult(M,s[2,1,1])", Ms, vmap(lambda v: v * zs, zM))
    # genuine broadcasts: the result shape differs from both operand shapes / from the higher-rank operand
    col, zcol = ct(B, "col", (k, 1))
    row, zrow = ct(B, "row", (1, l))
    bc = np.empty((k, l), dtype=object)
    for i, j in np.ndindex(k, l):
        bc[i, j] = zcol[i, 0] * zrow[0, j]
    cmp(B, G, "scalar_mult(col,row)", cplx.scalar_mult(col, row), bc)
    cmp(B, G, "scalar_mult(row,col)", cplx.scalar_mult(row, col), bc)
    one, zone = ct(B, "one", (1,))
    cmp(B, G, "scalar_mult(len1,x)", cplx.scalar_mult(one, x), vmap(lambda v: zone[0] * v, zx))
    cmp(B, G, "elementwise_mult(x,len1)", cplx.elementwise_mult(x, one), vmap(lambda v: zone[0] * v, zx))
    m11, zm11 = ct(B, "m11", (1, 1))
    cmp(B, G, "scalar_mult(m11,w)", cplx.scalar_mult(m11, w), vmap(lambda v: zm11[0, 0] * v, zw).reshape(1, l))
    buf = torch.zeros(2, k, dtype=torch.double)
    r = cplx.scalar_mult(x, y, out=buf)
    G.fact("scalar_mult.out_is_returned", r is buf, "out= buffer identity")
    cmp(B, G, "scalar_mult(out=)", buf, zx * zy)
    # a buffer with earlier content (arbitrary symbolic values) is overwritten, and can be reused for the next product
    dirty, _ = ct(B, "dirty", (k,))
    r2 = cplx.scalar_mult(x, y, out=dirty)
    G.fact("scalar_mult.dirty_out_is_returned", r2 is dirty, "out= buffer identity")
    cmp(B, G, "scalar_mult(out=buffer with earlier content)", dirty, zx * zy)
    cplx.scalar_mult(y, y, out=dirty)
    cmp(B, G, "scalar_mult(out=buffer reused)", dirty, zy * zy)
    raises(G, "scalar_mult.out_is_x", RuntimeError, lambda: cplx.scalar_mult(x, y, out=x))
    raises(G, "scalar_mult.out_is_y", RuntimeError, lambda: cplx.scalar_mult(x, y, out=y))
    xi = cplx.scalar_mult(x, cplx.I)
    G.fact("I_promoted_to_double", xi.dtype == torch.double, xi.dtype)
    cmp(B, G, "scalar_mult(x,I)", xi, vmap(lambda v: v * O.cplx(O.frac(0), O.frac(1)), zx))
    # matrix products
    mm = np.empty((k, k), dtype=object)
    for i, j in np.ndindex(k, k):
        mm[i, j] = sum((zM[i, q] * zN[q, j] for q in range(1, l)), zM[i, 0] * zN[0, j])
    cmp(B, G, "matmul(M,N)", cplx.matmul(M, N), mm)
    mv = np.empty((k,), dtype=object)
    for i in range(k):
        mv[i] = sum((zM[i, q] * zw[q] for q in range(1, l)), zM[i, 0] * zw[0])
    cmp(B, G, "matmul(M,w)", cplx.matmul(M, w), mv)
    # inner / outer products
    ip = sum((O.conj(zx[i]) * zy[i] for i in range(1, k)), O.conj(zx[0]) * zy[0])
    cmp(B, G, "inner_prod(x,y)", cplx.inner_prod(x, y), ip)
    cmp(B, G, "inner_prod(s,t)", cplx.inner_prod(s, s2), O.conj(zs) * zs2)
    op = np.empty((k, l), dtype=object)
    for i, j in np.ndindex(k, l):
        op[i, j] = zx[i] * O.conj(zw[j])
    cmp(B, G, "outer_prod(x,w)", cplx.outer_prod(x, w), op)
    raises(G, "inner_prod.mixed_ranks", ValueError, lambda: cplx.inner_prod(x, s))
    raises(G, "inner_prod.matrix", ValueError, lambda: cplx.inner_prod(M, M))
    raises(G, "outer_prod.scalar", ValueError, lambda: cplx.outer_prod(s, x))
    raises(G, "outer_prod.matrix", ValueError, lambda: cplx.outer_prod(M, x))
    # conjugation
    cmp(B, G, "conj(M)", cplx.conj(M), vmap(O.conj, zM))
    cmp(B, G, "conjugate(x)", cplx.conjugate(x), vmap(O.conj, zx))
    cmp(B, G, "conjugate(s)", cplx.conjugate(s), O.conj(zs))
    ctr = np.empty((l, k), dtype=object)
    for i, j in np.ndindex(l, k):
        ctr[i, j] = O.conj(zM[j, i])
    cmp(B, G, "conjugate(M)", cplx.conjugate(M), ctr)
    # division / inverse / modulus
    cmp(B, G, "elementwise_division(M,P)", cplx.elementwise_division(M, P), zM / zP if not B.symbolic else vmap(lambda i: i, np.vectorize(lambda a, b: a / b, otypes=[object])(zM, zP)))
    raises(G, "elementwise_division.shape_mismatch", ValueError, lambda: cplx.elementwise_division(M, N) if (k, l) != (l, k) else cplx.elementwise_division(M, x))
    cmp(B, G, "scalar_divide(x,s)", cplx.scalar_divide(x, s), vmap(lambda v: v / zs, zx))
    cmp(B, G, "scalar_divide(x,y)", cplx.scalar_divide(x, y), np.vectorize(lambda a, b: a / b, otypes=[object])(zx, zy))
    cmp(B, G, "inverse(x)", cplx.inverse(x), vmap(lambda v: O.cplx(O.frac(1)) / v, zx))
    cmp_real(B, G, "absolute_value(M)", cplx.absolute_value(M), vmap(lambda v: O.sqrt(O.abs2(v)), zM))
    cmp_real(B, G, "absolute_value(s)", cplx.absolute_value(s), O.sqrt(O.abs2(zs)))
    n2 = sum((O.abs2(zx[i]) for i in range(1, k)), O.abs2(zx[0]))
    cmp_real(B, G, "norm_sqr(x)", cplx.norm_sqr(x), n2)
    cmp_real(B, G, "norm(x)", cplx.norm(x), O.sqrt(n2))
    # complex sigmoid
    sg = cplx.sigmoid(B.tensor(re), B.tensor(im))
    cmp(B, G, "sigmoid", sg, np.vectorize(lambda a, b: O.cexp(O.cplx(a, b)) / (O.cplx(O.frac(1)) + O.cexp(O.cplx(a, b))), otypes=[object])(re, im))

    # sensitivity twins
    G.twin("twin_inner_prod_conjugates_second", B.scalars(cplx.inner_prod(x, y))[1], O.im(sum((zx[i] * O.conj(zy[i]) for i in range(1, k)), zx[0] * O.conj(zy[0]))))
    G.twin("twin_outer_no_conj", B.scalars(cplx.outer_prod(x, w))[1, 0, 0], O.im(zx[0] * zw[0]))


def kron_einsum(B, G, k, l, p, q):
    """Kronecker product of [2,k,l] and [2,p,q]; einsum with flags; rank-4 batches"""
    from qucumber.utils import cplx

    O = B.O
    X, zX = ct(B, "X", (k, l))
    Y, zY = ct(B, "Y", (p, q))
    kr = np.empty((k * p, l * q), dtype=object)
    for i, j, a, b in np.ndindex(k, l, p, q):
        kr[i * p + a, j * q + b] = zX[i, j] * zY[a, b]
    cmp(B, G, "kronecker_prod", cplx.kronecker_prod(X, Y), kr)
    x, zx = ct(B, "x", (k,))
    raises(G, "kronecker_prod.vector", ValueError, lambda: cplx.kronecker_prod(x, Y))
    # the square of a matrix: both arguments are the SAME tensor object (real and imaginary parts need not commute)
    Sq, zS = ct(B, "Sq", (2, 2))
    sq_before = B.scalars(Sq).copy()
    sref = np.empty((2, 2), dtype=object)
    for i, j in np.ndindex(2, 2):
        sref[i, j] = zS[i, 0] * zS[0, j] + zS[i, 1] * zS[1, j]
    cmp(B, G, "matmul(S,S) same object", cplx.matmul(Sq, Sq), sref)
    G.fact("matmul(S,S).operand_unchanged", bool(np.all(B.scalars(Sq) == sq_before)), "operand after squaring")
    T4, zT = ct(B, "T", (2, 1, p, q))
    raises(G, "kronecker_prod.rank4", ValueError, lambda: cplx.kronecker_prod(T4, Y))
    # einsum: batched matrix-vector contraction "ijb,ijbg->bg" pattern of the library and "ab,cd->acbd"
    A, zA = ct(B, "A", (k, l))
    Bt, zB = ct(B, "B", (k, l, 2))
    ref = np.empty((2,), dtype=object)
    for g_ in range(2):
        ref[g_] = sum((zA[i, j] * zB[i, j, g_] for i, j in list(np.ndindex(k, l))[1:]), zA[0, 0] * zB[0, 0, g_])
    cmp(B, G, "einsum(ij,ijg->g)", cplx.einsum("ij,ijg->g", A, Bt), ref)
    cmp_real(B, G, "einsum(real only)", cplx.einsum("ij,ijg->g", A, Bt, imag_part=False), np.vectorize(O.re, otypes=[object])(ref))
    cmp_real(B, G, "einsum(imag only)", cplx.einsum("ij,ijg->g", A, Bt, real_part=False), np.vectorize(O.im, otypes=[object])(ref))
    G.fact("einsum(neither)", cplx.einsum("ij,ijg->g", A, Bt, real_part=False, imag_part=False) is None, "returns None")
    # rank-4 conjugate: conj + swap of the first two tensor indices; real / imag of rank-4
    ctr = np.empty((1, 2, p, q), dtype=object)
    for i, j, a, b in np.ndindex(2, 1, p, q):
        ctr[j, i, a, b] = O.conj(zT[i, j, a, b])
    cmp(B, G, "conjugate(rank4)", cplx.conjugate(T4), ctr)
    cmp_real(B, G, "real(rank4)", cplx.real(T4), np.vectorize(O.re, otypes=[object])(zT))
    cmp_real(B, G, "imag(rank4)", cplx.imag(T4), np.vectorize(O.im, otypes=[object])(zT))
    cmp(B, G, "conj(rank4)", cplx.conj(T4), vmap(O.conj, zT))
    cmp_real(B, G, "absolute_value(rank4)", cplx.absolute_value(T4), vmap(lambda v: O.sqrt(O.abs2(v)), zT))
    # (indexing-free: a wrongly shaped result must fail its shape fact above, not crash the harness here)
    G.twin("twin_kron_order", B.scalars(cplx.kronecker_prod(X, Y)).reshape(2, -1)[0, -1], O.re(zX[k - 1, l - 1] * zY[p - 1, q - 1]) + 1)


def sigmoid_concrete(B, G):
    """cplx.sigmoid on concrete arguments (its own job: an implementation that branches on the sign of the real part cannot be
    run on symbolic arguments at all)"""
    from qucumber.utils import cplx

    O = B.O
    # concrete arguments in all four quadrants (code that branches on the sign of the real part can run): e^c, cos c, sin c opaque constants
    cre = np.array([O.frac(-1), O.frac(-1, 2), O.frac(3, 4), O.frac(-2), O.frac(1, 4)], dtype=object)
    cim = np.array([O.frac(2), O.frac(-1), O.frac(1, 2), O.frac(0), O.frac(-3, 2)], dtype=object)
    if not B.symbolic:
        cre, cim = cre.astype(float), cim.astype(float)
    sgc = cplx.sigmoid(B.tensor(cre), B.tensor(cim))
    cmp(B, G, "sigmoid(concrete)", sgc, np.vectorize(lambda a, b: O.cexp(O.cplx(a, b)) / (O.cplx(O.frac(1)) + O.cexp(O.cplx(a, b))), otypes=[object])(cre, cim))
    G.twin("twin_sigmoid_conjugate", B.scalars(sgc)[1, 0], -O.im(O.cexp(O.cplx(cre[0], cim[0])) / (O.cplx(O.frac(1)) + O.cexp(O.cplx(cre[0], cim[0])))))


def zeros(B, G):
    """operands with exact zero entries (0+0j): modulus, norms, products must give exact, finite results"""
    import math
    from qucumber.utils import cplx

    O = B.O
    vals = [(0, 0), (3, 4), (0, -2), (5, 0), (0, 0)]
    x = B.tensor(np.array([[r for r, _ in vals], [i for _, i in vals]], dtype=object if B.symbolic else float))

    def finite(name, fn):
        try:
            out = fn()
        except ArithmeticError as e:
            G.fact(name + ".finite", False, "undefined value: %s" % e)
            return None
        arr = np.asarray(B.scalars(out), dtype=object).reshape(-1)
        if not B.symbolic:
            okf = all(math.isfinite(float(v)) for v in arr)
            G.fact(name + ".finite", okf, "values %s" % [float(v) for v in arr])
            if not okf:
                return None
        else:
            G.fact(name + ".finite", True, "")
        return arr

    a = finite("absolute_value(with zeros)", lambda: cplx.absolute_value(x))
    if a is not None:
        for k, (r, i) in enumerate(vals):
            G.eq("absolute_value(with zeros)[%d]" % k, a[k], O.frac(int(round(math.hypot(r, i)))))
    a = finite("norm(with zeros)", lambda: cplx.norm(x))
    if a is not None:
        G.eq("norm(with zeros)^2", a[0] ** 2, O.frac(sum(r * r + i * i for r, i in vals)))
    z = B.tensor(np.zeros((2, 3), dtype=object if B.symbolic else float))
    a = finite("absolute_value(zero vector)", lambda: cplx.absolute_value(z))
    if a is not None:
        for k in range(3):
            G.eq("absolute_value(zero vector)[%d]" % k, a[k], O.frac(0))
    a = finite("norm(zero vector)", lambda: cplx.norm(z))
    if a is not None:
        G.eq("norm(zero vector)", a[0], O.frac(0))
    a = finite("scalar_mult(x, zero)", lambda: cplx.scalar_mult(x, B.tensor(np.zeros((2,), dtype=object if B.symbolic else float))))
    if a is not None:
        for k in range(len(a)):
            G.eq("scalar_mult(x, zero)[%d]" % k, a[k], O.frac(0))
    # vectors of different lengths are not an inner product
    for (p_, q_) in ((1, 4), (5, 1), (3, 4), (4, 2)):
        u = B.tensor(np.ones((2, p_), dtype=object if B.symbolic else float))
        v = B.tensor(np.ones((2, q_), dtype=object if B.symbolic else float))
        raises(G, "inner_prod.length_%d_vs_%d_rejected" % (p_, q_), (ValueError, RuntimeError), lambda u=u, v=v: cplx.inner_prod(u, v))
    G.twin("twin_zero", B.scalars(cplx.absolute_value(x))[1], O.frac(4))


def jobs(tier):
    J = []
    shapes = [(1, 1), (2, 3), (3, 1), (2, 2)] + ([(3, 3), (1, 3), (3, 2), (4, 2), (2, 4), (4, 4)] if tier != "quick" else [])
    for k, l in shapes:
        J.append(dict(name="basic-%dx%d" % (k, l), module="checks.c15", scenario="basic", kwargs=dict(k=k, l=l)))
    J.append(dict(name="zeros", module="checks.c15", scenario="zeros", kwargs={}))
    J.append(dict(name="sigmoid-concrete", module="checks.c15", scenario="sigmoid_concrete", kwargs={}))
    ks = [(2, 1, 1, 3), (2, 2, 2, 2), (1, 2, 3, 1)] + ([(2, 3, 3, 2), (3, 3, 2, 2), (4, 1, 2, 3), (3, 2, 4, 1)] if tier != "quick" else [])
    for t in ks:
        J.append(dict(name="kron-%d%d%d%d" % t, module="checks.c15", scenario="kron_einsum", kwargs=dict(k=t[0], l=t[1], p=t[2], q=t[3])))
    return J


def main(tier, seed):
    return harness.run_check(PID, tier, jobs(tier), META, seed=seed)
