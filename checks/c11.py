"""C11 Saving and reloading reproduces the state exactly and has no side effects (pathfork over operation histories)."""
import os
import shutil
import tempfile
import numpy as np
from vf import harness, e2

PID = "C11"

META = dict(
    level="model_checking",
    explanation="path-by-path exploration (pathfork) of operation HISTORIES on the real code with real files: every sequence (within "
    "the bound) of reinitialise / perturb (stand-in for training) / save / save-again with the same metadata object / load into a "
    "fresh compatible model / load into a model holding a different unitary dictionary / autoload / load-into-self over two files is "
    "selected by symbolic integers that z3 enumerates; after every step the loaded or written state is compared bit-for-bit "
    "(torch.equal) with an independent record, including architecture, unitary dictionary (with a user-added unitary), stored "
    "metadata, and the caller's metadata object and the saved model being unchanged",
    functions=["qucumber/nn_states/neural_state.py: save, load", "qucumber/nn_states/*: autoload, __init__ (module=)", "torch.save / torch.load (real)"],
    bounds=dict(quick="histories of 3 operations over 2 files; positive (2,3), complex (2,3) with a user-added unitary, mixed (2,3,1), mixed built from a user-supplied module; metadata dict (nested, tensor-valued, keys containing reserved names); operations incl. overwrite-and-reload of one path; user dictionary without the default Y; receiver and bystander sharing one dictionary",
                thorough="histories of 4 operations"),
    outside=["devices other than CPU", "metadata values that torch cannot serialise", "histories longer than the bound"],
    stubs=["training is represented by an in-place perturbation of all parameters"],
)


def _mk(kind, custom=True, seed=0, ud=None):
    import torch
    from qucumber.nn_states import PositiveWaveFunction, ComplexWaveFunction, DensityMatrix
    from qucumber.rbm import PurificationRBM
    from qucumber.utils import unitaries

    if ud is None:
        ud = unitaries.create_dict(T=torch.tensor([[[0.6, 0.8], [0.8, -0.6]], [[0.0, 0.0], [0.0, 0.0]]], dtype=torch.double)) if custom else None
        if ud is not None:
            del ud["Y"]  # a dictionary without one of the default letters: what is saved / loaded is THIS dictionary
    if kind == "positive":
        st = PositiveWaveFunction(2, 3, gpu=False)
    elif kind == "complex":
        st = ComplexWaveFunction(2, 3, unitary_dict=ud, gpu=False)
    elif kind == "mixed":
        st = DensityMatrix(2, 3, 1, unitary_dict=ud, gpu=False)
    else:  # mixed state built from a user-supplied module
        st = DensityMatrix(5, module=PurificationRBM(2, 3, 1), unitary_dict=ud, gpu=False)
    g = torch.Generator().manual_seed(100 + seed)
    for net in st.networks:
        for p in getattr(st, net).parameters():
            p.data.copy_(torch.randn(p.shape, generator=g, dtype=torch.double))
    return st


def _snap(st):
    d = {net: {k: v.clone() for k, v in getattr(st, net).state_dict().items()} for net in st.networks}
    ud = {k: v.clone() for k, v in st.unitary_dict.items()} if hasattr(st, "unitary_dict") else None
    return d, ud


def _same(st, snap):
    import torch

    d, ud = snap
    for net in st.networks:
        sd = getattr(st, net).state_dict()
        if set(sd) != set(d[net]):
            return "parameter names of %s differ" % net
        for k, v in d[net].items():
            if sd[k].shape != v.shape or not torch.equal(sd[k], v):
                return "%s.%s differs" % (net, k)
    if ud is not None:
        cur = st.unitary_dict
        if sorted(cur) != sorted(ud):
            return "unitary dictionary keys %s, expected %s" % (sorted(cur), sorted(ud))
        for k, v in ud.items():
            if not torch.equal(cur[k], v):
                return "unitary %s differs" % k
    return None


def history(I, kind="complex", length=3, twin=False):
    import torch

    d = tempfile.mkdtemp(prefix="c11.")
    try:
        A = _mk(kind, custom=True, seed=1)
        files = [os.path.join(d, "f0.pt"), os.path.join(d, "f1.pt")]
        stored = {}
        # (keys that merely CONTAIN a reserved name are ordinary metadata)
        meta = {"note": "x", "nested": {"a": [1, 2]}, "t": torch.tensor([1.5, -2.0]), "rbm_am_lr": 0.25, "unitary_dict_source": "lab",
                "nothing": None, "empty_list": [], "empty_dict": {}, "blank": "", "zero": 0}  # "empty" values are metadata too

        def meta_ok():
            return (sorted(meta) == sorted(["nested", "note", "rbm_am_lr", "t", "unitary_dict_source", "nothing", "empty_list", "empty_dict", "blank", "zero"])
                    and meta["nothing"] is None and meta["empty_list"] == [] and meta["empty_dict"] == {} and meta["blank"] == "" and meta["zero"] == 0
                    and meta["note"] == "x" and meta["nested"] == {"a": [1, 2]}
                    and torch.equal(meta["t"], torch.tensor([1.5, -2.0])) and meta["rbm_am_lr"] == 0.25 and meta["unitary_dict_source"] == "lab")

        expected_A = _snap(A)
        for step in range(length):
            op, f = int(I["op%d" % step]), int(I["f%d" % step])
            path = files[f]
            tag = "step %d op %d file %d" % (step, op, f)
            if op == 0:
                A.reinitialize_parameters()
                expected_A = _snap(A)
            elif op == 1:
                for net in A.networks:
                    for p in getattr(A, net).parameters():
                        p.data.add_(0.25)
                if not twin:
                    expected_A = _snap(A)
            elif op in (2, 3):
                A.save(path, meta)
                if op == 3:
                    A.save(path, meta)  # the same state and metadata object can be saved any number of times
                stored[f] = _snap(A)
                if not meta_ok():
                    return False, "%s: save modified the caller's metadata: keys %s" % (tag, sorted(meta))
                blob = torch.load(path)
                if blob.get("note") != "x" or blob.get("nested") != {"a": [1, 2]} or not torch.equal(blob.get("t"), torch.tensor([1.5, -2.0])) \
                        or blob.get("rbm_am_lr") != 0.25 or blob.get("unitary_dict_source") != "lab" \
                        or any(k_ not in blob for k_ in ("nothing", "empty_list", "empty_dict", "blank", "zero")) \
                        or blob["nothing"] is not None or blob["empty_list"] != [] or blob["empty_dict"] != {} or blob["blank"] != "" or blob["zero"] != 0 \
                        or set(blob) - set(A.networks) - {"unitary_dict"} != set(meta):
                    return False, "%s: stored metadata wrong" % tag
                # the file written by THIS save holds the parameters the model has NOW (whatever happened since an earlier save)
                for net in A.networks:
                    cur = getattr(A, net).state_dict()
                    got = blob.get(net)
                    if not isinstance(got, dict) or set(got) != set(cur):
                        return False, "%s: file lacks the parameters of %s" % (tag, net)
                    for k_, v_ in cur.items():
                        if got[k_].shape != v_.shape or not torch.equal(got[k_], v_):
                            return False, "%s: file holds other values of %s.%s than the model has at the time of saving" % (tag, net, k_)
            elif op == 8:
                # train on, overwrite the SAME path, read it back at once (whatever was read from that path before)
                for net in A.networks:
                    for p in getattr(A, net).parameters():
                        p.data.mul_(-0.5).add_(0.125)
                expected_A = _snap(A)
                A.save(path, meta)
                stored[f] = _snap(A)
                Bm = _mk(kind, custom=True, seed=11)
                Bm.load(path)
                err = _same(Bm, stored[f])
                if err:
                    return False, "%s: a file rewritten after an earlier load reads back stale: %s" % (tag, err)
                Cm = type(A).autoload(path)
                err = _same(Cm, stored[f])
                if err:
                    return False, "%s: autoload of a rewritten file: %s" % (tag, err)
            elif op in (4, 5, 6, 7):
                if f not in stored:
                    continue
                if op == 4:
                    if kind == "positive":
                        Bm = _mk(kind, custom=True, seed=7)
                        Bm.load(path)
                    else:
                        # the receiver and a bystander are built from ONE user-supplied dictionary whose T (and Y) differ from the
                        # file's: loading replaces the receiver's dictionary and leaves the caller's object and the bystander alone
                        from qucumber.utils import unitaries as _u

                        shared = _u.create_dict(T=torch.tensor([[[0.0, 1.0], [1.0, 0.0]], [[0.0, 0.0], [0.0, 0.0]]], dtype=torch.double),
                                                Y=torch.tensor([[[0.6, 0.0], [0.0, 0.6]], [[0.8, 0.0], [0.0, -0.8]]], dtype=torch.double))
                        shared_before = {k: v.clone() for k, v in shared.items()}
                        Bm = _mk(kind, custom=True, seed=7, ud=shared)
                        Cm = _mk(kind, custom=True, seed=9, ud=shared)
                        Bm.load(path)
                        for holder, dct in (("the caller's dictionary object", shared), ("a bystander model built from the same dictionary", Cm.unitary_dict)):
                            if sorted(dct) != sorted(shared_before) or any(not torch.equal(dct[k], shared_before[k]) for k in shared_before):
                                return False, "%s: load() into one model changed %s" % (tag, holder)
                elif op == 5:
                    other = {"mixed": "mixed-module", "mixed-module": "mixed"}.get(kind, kind)
                    Bm = _mk(other, custom=False, seed=8)  # receiver built the other way, with the default dictionary
                    if hasattr(Bm, "unitary_dict"):
                        Bm.unitary_dict["S"] = Bm.unitary_dict["Z"].clone()  # ... plus a key the file does not have
                    Bm.load(path)
                elif op == 6:
                    Bm = type(A).autoload(path) if kind != "mixed-module" else type(A).autoload(path)
                    if (Bm.num_visible, Bm.num_hidden) != (2, 3) or (hasattr(Bm, "num_aux") and Bm.num_aux != 1):
                        return False, "%s: autoload built architecture (%s,%s)" % (tag, Bm.num_visible, Bm.num_hidden)
                else:
                    A.load(path)
                    Bm = A
                    expected_A = stored[f]
                err = _same(Bm, stored[f])
                if err:
                    return False, "%s: loaded state: %s" % (tag, err)
            err = _same(A, expected_A)
            if err:
                return False, "%s: the source model changed: %s" % (tag, err)
        # reserved names are refused
        for bad in list(A.networks) + (["unitary_dict"] if hasattr(A, "unitary_dict") else []):
            try:
                A.save(files[0] + ".bad", {bad: 1})
                return False, "reserved metadata key %r accepted" % bad
            except ValueError:
                pass
        return True, ""
    finally:
        shutil.rmtree(d, ignore_errors=True)


def specs(tier):
    L = 3 if tier == "quick" else 4
    S = []
    for kind in ("positive", "complex", "mixed", "mixed-module"):
        inputs = {}
        for i in range(L):
            inputs["op%d" % i] = ("int", 0, 8)
            inputs["f%d" % i] = ("int", 0, 1)
        pre = ["op0 >= 1", "op0 <= 3", "f0 == 0"] if tier == "quick" else ["op0 <= 3"]
        S.append(dict(name="history-%s" % kind, module="checks.c11", function="history", kwargs=dict(kind=kind, length=L), inputs=inputs, pre=pre,
                      key="save/load history"))
    # the periodic model-saving callback saves the same state / metadata object repeatedly (harness shared with C17)
    sv_in = dict(start=("int", 0, 2), epochs=("int", 1, 3), period=("int", 1, 2), stop_at=("int", 0, 0))
    for kind, md in (("complex", "dict"), ("complex", "callable"), ("mixed", "callable"), ("positive", "dict")):
        S.append(dict(name="modelsaver-%s-%s" % (kind, md), module="checks.c17", function="saver", kwargs=dict(kind=kind, metadata=md, metadata_only=False, save_initial=True),
                      inputs=sv_in, key="ModelSaver"))
    S.append(dict(name="twin-stale-record", module="checks.c11", function="history", kwargs=dict(kind="positive", length=2, twin=True), expect_fail=True,
                  inputs=dict(op0=("int", 1, 1), f0=("int", 0, 0), op1=("int", 2, 2), f1=("int", 0, 0))))
    return S


def main(tier, seed):
    ex = e2.run_specs(PID, tier, specs(tier))
    return harness.run_check(PID, tier, [], META, seed=seed, extra=ex)
