"""C06 Each training step applies exactly the contrastive-divergence update."""
import math
import numpy as np
from . import common as C
from vf import harness, e2

PID = "C06"

META = dict(
    level="other",
    explanation="bounded SMT verification of the real fit loop: one / two / three batches of one epoch are executed with symbolic "
    "parameters, a SYMBOLIC learning rate, scripted shuffling and scripted Bernoulli outcomes; at every batch the gradient found on "
    "each parameter (.grad) is compared with positive phase minus (1/neg_batch_size) * sum of grad E at the chain end state (grad E "
    "written per parameter from the energy definition), and the parameter after optimizer.step with old - lr * grad, as identities "
    "over all real parameter values and learning rates decided by z3 on the residual; the state before the second batch is the "
    "(symbolic) result of the first update.  Optimizer / scheduler call counts: pathfork over (start, epochs, stop point)",
    functions=["qucumber/nn_states/neural_state.py: fit, compute_batch_gradients, _shuffle_data, positive_phase_gradients",
               "qucumber/utils/gradients_utils.py: vector_to_grads", "qucumber/rbm/*.py: gibbs_steps, effective_energy_gradient",
               "qucumber/nn_states/{positive,complex}_wavefunction.py, density_matrix.py: fit / compute_batch_gradients overrides", "torch.optim.SGD (modelled: p <- p - lr * grad)"],
    bounds=dict(quick="positive (2,2) N=3 with (pos,neg) batch sizes (2,2),(2,1),(3,2),(1,3); complex (2,1) N=3 (2,2),(2,1); mixed (1,1,1) N=3 (2,1); k in {0,1,2}; two consecutive runs sharing one optimizer_args dict with two symbolic learning rates (positive (2,2), complex (2,1)); counting: start, epochs in 0..3, 1-3 batches, stop at any event",
                thorough="k up to 3, complex (2,2), mixed (2,1,1), more batch-size combinations"),
    outside=["optimizers other than SGD (momentum, weight decay, Adam: torch's update rules)", "floating point", "N > 4"],
    stubs=["torch.randperm / randint / bernoulli -> scripted", "torch.optim.SGD -> exact real-arithmetic model in the symbolic backend (the real one in the replay backend)", "torch -> vf.symtorch"],
)


def sigmoid(O, x):
    e = O.exp(x)
    return e / (1 + e)


def grad_E(O, Pcur, v, mixed):
    """dE/dtheta at visible state v, written per parameter from the energy definition; returns dict name -> nested list"""
    Wn = "weights_W" if mixed else "weights"
    W, b, c = Pcur[Wn], Pcur["visible_bias"], Pcur["hidden_bias"]
    out = {}
    ph = [sigmoid(O, C.lin(O, W[i], v, c[i])) for i in range(len(c))]
    out[Wn] = [[-ph[i] * vj for vj in v] for i in range(len(c))]
    out["visible_bias"] = [O.frac(-vj) for vj in v]
    out["hidden_bias"] = [-p for p in ph]
    if mixed:
        U, d = Pcur["weights_U"], Pcur["aux_bias"]
        pa = [sigmoid(O, C.lin(O, U[k], v, d[k])) for k in range(len(d))]
        out["weights_U"] = [[-pa[k] * vj for vj in v] for k in range(len(d))]
        out["aux_bias"] = [-p for p in pa]
    return out


def cd_step(B, G, kind, n, h, a, data, bases, bs, nbs, k, epochs=1):
    from qucumber.callbacks import LambdaCallback

    O = B.O
    torch = B.torch
    st, P = C.make_state(B, kind, n, h, a)
    mixed = kind == "mixed"
    N = len(data)
    nb = math.ceil(N / bs)
    eff_nbs = nbs if nbs else bs
    with_bases = kind != "positive"
    barr = np.array([list(x) for x in bases]) if with_bases else None
    zrows = [i for i in range(N) if with_bases and all(ch == "Z" for ch in bases[i])]
    # scripted randomness
    perms = []
    draws = []

    def randperm(m):
        p = [(i * 2 + 1) % m for i in range(m)] if m % 2 else list(reversed(range(m)))
        perms.append(p)
        return p

    def randint(high, size):
        d = [(3 * i + 1) % high for i in range(size[0])]
        draws.append(d)
        return d

    script = []

    def bern(p):
        shp = np.shape(p)
        idx = len(script)
        out = np.fromfunction(lambda *ix: (sum(ix) + idx) % 2, shp) if len(shp) else np.array(float(idx % 2))
        script.append(np.asarray(out, dtype=float))
        return script[-1]

    B.stub_randperm(randperm)
    B.stub_randint(randint)
    B.stub_bernoulli(bern)
    lr = B.var("lr")
    nets = list(st.networks)
    names = {net: [nm for nm, _ in getattr(st, net).named_parameters()] for net in nets}
    snaps = []

    def cur(net):
        return {nm: B.scalars(getattr(getattr(st, net), nm)).copy() for nm in names[net]}

    state = dict(epoch_perm=None)

    def on_batch_start(s, ep, b):
        # the batch that fit is about to process, recomputed from the scripted shuffle
        perm = perms[-1]
        rows = [perm[i] for i in range(b * bs, min((b + 1) * bs, N))]
        if not with_bases and eff_nbs == bs:
            nrows = rows
            negsrc = [data[i] for i in nrows]
        elif not with_bases:
            d = draws[-1]
            negsrc = [data[i] for i in d[b * eff_nbs:(b + 1) * eff_nbs]]
        else:
            d = draws[-1]
            negsrc = [data[zrows[i]] for i in d[b * eff_nbs:(b + 1) * eff_nbs]]
        before = {net: cur(net) for net in nets}
        samples = C.rows_tensor(B, [data[i] for i in rows])
        if with_bases:
            pos = st.positive_phase_gradients(samples, bases_batch=barr[rows])
        else:
            pos = st.positive_phase_gradients(samples)
        pos = [B.scalars(x).copy() for x in pos]
        snaps.append(dict(ep=ep, b=b, rows=rows, neg=negsrc, before=before, pos=pos, nscript=len(script)))

    def on_batch_end(s, ep, b):
        sn = snaps[-1]
        sn["after"] = {net: cur(net) for net in nets}
        sn["grads"] = {net: {nm: (None if getattr(getattr(st, net), nm).grad is None else B.scalars(getattr(getattr(st, net), nm).grad).copy()) for nm in names[net]} for net in nets}
        sn["script"] = script[sn["nscript"]:]

    cb = LambdaCallback(on_batch_start=on_batch_start, on_batch_end=on_batch_end)
    kw = dict(epochs=epochs, pos_batch_size=bs, k=k, lr=lr, callbacks=[cb])
    if nbs is not None:
        kw["neg_batch_size"] = nbs
    if with_bases:
        kw["input_bases"] = barr
    st.fit(C.rows_tensor(B, data), **kw)
    G.fact("batches_processed", len(snaps) == nb * epochs, "%d batch callbacks, expected %d" % (len(snaps), nb * epochs))
    per_step = 3 if mixed else 2
    for t, sn in enumerate(snaps):
        tag = "batch%d" % t
        sc = sn["script"]
        G.fact(tag + ".gibbs_draws", len(sc) == per_step * k, "%d Bernoulli draws for k=%d" % (len(sc), k))
        if k > 0 and len(sc) == per_step * k:
            vk = [[int(x) for x in row] for row in sc[-1]]
        else:
            vk = [list(r) for r in sn["neg"]]
        G.fact(tag + ".chain_rows", len(vk) == len(sn["neg"]), "%d chains for %d negative-phase rows" % (len(vk), len(sn["neg"])))
        negcount = len(sn["neg"])
        Pb = sn["before"]["rbm_am"]
        gsum = None
        for v in vk:
            ge = grad_E(O, Pb, v, mixed)
            if gsum is None:
                gsum = ge
            else:
                for nm in ge:
                    ga = np.asarray(gsum[nm], dtype=object) + np.asarray(ge[nm], dtype=object)
                    gsum[nm] = ga
        for ni, net in enumerate(nets):
            off = 0
            for nm in names[net]:
                before = np.asarray(sn["before"][net][nm], dtype=object).reshape(-1)
                after = np.asarray(sn["after"][net][nm], dtype=object).reshape(-1)
                g = sn["grads"][net][nm]
                G.fact("%s.%s.%s.grad_set" % (tag, net, nm), g is not None and tuple(np.shape(g)) == tuple(np.shape(sn["before"][net][nm])), "grad shape")
                if g is None:
                    off += len(before)
                    continue
                g = np.asarray(g, dtype=object).reshape(-1)
                for i in range(len(before)):
                    ref = sn["pos"][ni][off + i]
                    if net == "rbm_am":
                        ref = ref - np.asarray(gsum[nm], dtype=object).reshape(-1)[i] * O.frac(1, negcount)
                    G.eq("%s.%s.%s[%d].grad" % (tag, net, nm, i), g[i], ref, tol=1e-6)
                    G.eq("%s.%s.%s[%d].sgd_update" % (tag, net, nm, i), after[i], before[i] - lr * g[i])
                off += len(before)
        if t + 1 < len(snaps):
            nxt = snaps[t + 1]
            same = all(np.array_equal(np.asarray(sn["after"][net][nm], dtype=object), np.asarray(nxt["before"][net][nm], dtype=object)) for net in nets for nm in names[net])
            G.fact(tag + ".next_batch_starts_from_this_update", same, "parameters at the next batch start")
    last = snaps[-1]
    G.twin("twin_positive_phase_only", np.asarray(last["grads"]["rbm_am"]["visible_bias"], dtype=object).reshape(-1)[0], last["pos"][0][len(np.asarray(last["before"]["rbm_am"][names["rbm_am"][0]]).reshape(-1))])


def counting(I, nb=2, scheduler=True):
    """optimizer.zero_grad / step exactly once per batch, scheduler.step exactly once per epoch (also epochs cut by a stop)"""
    import torch
    from checks.c12 import _state, _DATA, reference
    from qucumber.callbacks import LambdaCallback

    start, epochs, stop_ev = I["start"], I["epochs"], I["stop_ev"]
    st = _state("bare")
    log = []
    cnt = [0]

    class Opt:
        def __init__(self, params, lr=None, **kw):
            log.append("opt_init")

        def zero_grad(self):
            log.append("zero_grad")

        def step(self):
            log.append("step")

    class Sched:
        def __init__(self, optimizer, **kw):
            log.append("sched_init")

        def step(self):
            log.append("sched_step")

    def rec(*e):
        log.append(e)
        if cnt[0] == stop_ev:
            st.stop_training = True
        cnt[0] += 1

    cb = LambdaCallback(on_train_start=lambda s: rec("train_start"), on_train_end=lambda s: rec("train_end"),
                        on_epoch_start=lambda s, ep: rec("epoch_start", ep), on_epoch_end=lambda s, ep: rec("epoch_end", ep),
                        on_batch_start=lambda s, ep, b: rec("batch_start", ep, b), on_batch_end=lambda s, ep, b: rec("batch_end", ep, b))
    st.fit(torch.tensor(_DATA[nb], dtype=torch.double), epochs=epochs, pos_batch_size=2, starting_epoch=start, callbacks=[cb],
           optimizer=Opt, scheduler=Sched if scheduler else None, scheduler_args=dict() if scheduler else None)
    want_events, _ = reference(int(start), int(epochs), nb, int(stop_ev), 1)
    want = ["opt_init"] + (["sched_init"] if scheduler else [])
    for e in want_events:
        e = e[1:]
        if e[0] == "batch_end":
            want += ["zero_grad", "step"]
        if e[0] == "epoch_end" and scheduler:
            want.append("sched_step")
        want.append(e)
    if log != want:
        return False, "call sequence %s..., expected %s..." % (log[:14], want[:14])
    return True, ""


def two_runs(B, G, kind, n, h, a, data, bases):
    """history: the same model is trained twice with different (symbolic) learning rates, the caller passing the SAME
    optimizer_args dict both times; every step of each run uses that run's learning rate; the caller's dict is not written to"""
    from qucumber.callbacks import LambdaCallback

    O = B.O
    st, P = C.make_state(B, kind, n, h, a)
    with_bases = kind != "positive"
    barr = np.array([list(x) for x in bases]) if with_bases else None
    B.stub_randperm(lambda m: list(range(m)))
    B.stub_randint(lambda high, size: [0] * size[0])
    B.stub_bernoulli(lambda p: np.ones(np.shape(p)))
    nets = list(st.networks)
    names = {net: [nm for nm, _ in getattr(st, net).named_parameters()] for net in nets}
    snaps = []

    def cur(net):
        return {nm: B.scalars(getattr(getattr(st, net), nm)).copy() for nm in names[net]}

    def on_batch_start(s, ep, b):
        snaps.append(dict(before={net: cur(net) for net in nets}))

    def on_batch_end(s, ep, b):
        sn = snaps[-1]
        sn["after"] = {net: cur(net) for net in nets}
        sn["grads"] = {net: {nm: (None if getattr(getattr(st, net), nm).grad is None else B.scalars(getattr(getattr(st, net), nm).grad).copy()) for nm in names[net]} for net in nets}

    cb = LambdaCallback(on_batch_start=on_batch_start, on_batch_end=on_batch_end)
    shared = {"momentum": 0}
    lrs = [B.var("lr"), B.var("lr_second")]
    marks = []
    for run, lr in enumerate(lrs):
        # the second call CONTINUES the first (starting_epoch = 2, epochs = 2: one more epoch) with its own learning rate
        kw = dict(epochs=1 + run, starting_epoch=1 + run, pos_batch_size=2, k=1, lr=lr, callbacks=[cb], optimizer_args=shared)
        if with_bases:
            kw["input_bases"] = barr
        st.fit(C.rows_tensor(B, data), **kw)
        marks.append(len(snaps))
        G.fact("run%d.optimizer_args_unchanged" % run, shared == {"momentum": 0}, "caller's dict is now %r" % (sorted(shared),))
    start = 0
    for run, (lr, end) in enumerate(zip(lrs, marks)):
        for t in range(start, end):
            sn = snaps[t]
            for net in nets:
                for nm in names[net]:
                    gr = sn["grads"][net][nm]
                    bf, af = sn["before"][net][nm].reshape(-1), sn["after"][net][nm].reshape(-1)
                    for i in range(len(bf)):
                        gi = O.frac(0) if gr is None else gr.reshape(-1)[i]
                        G.eq("run%d.batch%d.%s.%s[%d]==before-lr*grad" % (run, t - start, net, nm, i), af[i], bf[i] - lr * gi)
        start = end
    G.fact("both_runs_stepped", marks[0] > 0 and marks[1] > marks[0], marks)
    sn = snaps[marks[0]]
    g0 = sn["grads"][nets[0]][names[nets[0]][0]].reshape(-1)[0]
    G.twin("twin_first_rate_reused", sn["after"][nets[0]][names[nets[0]][0]].reshape(-1)[0], sn["before"][nets[0]][names[nets[0]][0]].reshape(-1)[0] - lrs[0] * g0)


def jobs(tier):
    J = []

    def add(name, **kw):
        J.append(dict(name=name, module="checks.c06", scenario="cd_step", kwargs=kw, opts=dict(env_range=0.75, var_ranges=[["lr", 0.05, 0.5]], timeout_ms=120000)))

    d3 = [[0, 1], [1, 1], [1, 0]]
    d4 = [[0, 1], [1, 1], [1, 0], [0, 0]]
    for (bs, nbs, k) in [(2, None, 1), (2, 1, 1), (3, 2, 2), (1, 3, 0), (2, 2, 0)]:
        add("positive-2x2-N3-bs%d-neg%s-k%d" % (bs, nbs, k), kind="positive", n=2, h=2, a=None, data=d3, bases=None, bs=bs, nbs=nbs, k=k)
    b3 = ["ZZ", "XZ", "ZZ"]
    for (bs, nbs, k) in [(2, None, 1), (2, 1, 1), (3, 2, 0)]:
        add("complex-2x1-N3-bs%d-neg%s-k%d" % (bs, nbs, k), kind="complex", n=2, h=1, a=None, data=d3, bases=b3, bs=bs, nbs=nbs, k=k)
    add("mixed-111-N3-bs2-neg1-k1", kind="mixed", n=1, h=1, a=1, data=[[0], [1], [1]], bases=["Z", "Y", "Z"], bs=2, nbs=1, k=1)
    # states built from a user-supplied RBM are trained by the same rule (each network keeps its own gradient and its own step)
    add("complex-module-2x1-N3-bs2-k1", kind="complex-module", n=2, h=1, a=None, data=d3, bases=b3, bs=2, nbs=None, k=1)
    ropts = dict(env_range=0.75, var_ranges=[["lr", 0.05, 0.5]], timeout_ms=120000)
    J.append(dict(name="two-runs-positive-2x2", module="checks.c06", scenario="two_runs", kwargs=dict(kind="positive", n=2, h=2, a=None, data=d3, bases=None), opts=dict(ropts)))
    J.append(dict(name="two-runs-complex-2x1", module="checks.c06", scenario="two_runs", kwargs=dict(kind="complex", n=2, h=1, a=None, data=d3, bases=b3), opts=dict(ropts)))
    # the positive phase the update rule uses is checked above against the library's own positive_phase_gradients; that this is the
    # mean of the per-sample gradients for batches MIXING reference-basis and rotated rows is C03's composition scenario, run here too
    J.append(dict(name="positive-phase-of-mixed-basis-batches", module="checks.c03", scenario="batch",
                  kwargs=dict(kind="complex", n=2, h=1, a=None, data=[[0, 1], [1, 1], [1, 0], [0, 0]], bases=["ZZ", "XZ", "YX", "ZZ"]), opts=dict(ropts)))
    if tier != "quick":
        J.append(dict(name="two-runs-mixed-111", module="checks.c06", scenario="two_runs", kwargs=dict(kind="mixed", n=1, h=1, a=1, data=[[0], [1], [1]], bases=["Z", "Y", "Z"]), opts=dict(ropts)))
        add("positive-2x2-N4-bs3-neg2-k3", kind="positive", n=2, h=2, a=None, data=d4, bases=None, bs=3, nbs=2, k=3)
        add("positive-3x2-N4-bs2-k2", kind="positive", n=3, h=2, a=None, data=[[0, 1, 1], [1, 1, 0], [1, 0, 0], [0, 0, 1]], bases=None, bs=2, nbs=None, k=2)
        add("complex-2x2-N4-bs3-neg2-k1", kind="complex", n=2, h=2, a=None, data=d4, bases=["ZZ", "YX", "ZZ", "XY"], bs=3, nbs=2, k=1)
        add("complex-2x1-N3-bs2-k3", kind="complex", n=2, h=1, a=None, data=d3, bases=b3, bs=2, nbs=None, k=3)
        add("mixed-111-N3-bs2-k2", kind="mixed", n=1, h=1, a=1, data=[[0], [1], [1]], bases=["Z", "Y", "X"], bs=2, nbs=None, k=2)
        add("mixed-211-N3-bs2-neg1-k1", kind="mixed", n=2, h=1, a=1, data=d3, bases=b3, bs=2, nbs=1, k=1)
        add("positive-4x3-N4-bs3-k1", kind="positive", n=4, h=3, a=None, data=[[0, 1, 1, 0], [1, 1, 0, 1], [1, 0, 0, 0], [0, 0, 1, 1]], bases=None, bs=3, nbs=None, k=1)
        add("complex-3x2-N4-bs2-neg3-k1", kind="complex", n=3, h=2, a=None, data=[[0, 1, 1], [1, 1, 0], [1, 0, 0], [0, 0, 1]], bases=["ZZZ", "XYZ", "ZZZ", "YZX"], bs=2, nbs=3, k=1)
        add("mixed-121-N3-bs1-k1", kind="mixed", n=1, h=2, a=1, data=[[0], [1], [1]], bases=["Z", "Y", "X"], bs=1, nbs=None, k=1)
    return J


def specs(tier):
    hi = 3 if tier == "quick" else 4
    S = []
    for nb in (1, 2, 3):
        for sched in (True, False):
            if not sched and nb != 2:
                continue
            S.append(dict(name="counting-nb%d-%s" % (nb, "sched" if sched else "nosched"), module="checks.c06", function="counting", kwargs=dict(nb=nb, scheduler=sched),
                          inputs=dict(start=("int", 0, hi), epochs=("int", 0, hi), stop_ev=("int", -1, 2 + (hi + 1) * (2 + 2 * nb)))))
    return S


def main(tier, seed):
    ex = e2.run_specs(PID, tier, specs(tier))
    return harness.run_check(PID, tier, jobs(tier), META, seed=seed, extra=ex)
