"""C04 Measurement-basis rotations equal the tensor-product unitary they denote."""
import itertools
import numpy as np
from . import common as C
from vf import harness

PID = "C04"

META = dict(
    level="other",
    explanation="bounded SMT verification: rotate_psi / rotate_rho / rotate_psi_inner_prod / rotate_rho_probs executed "
    "symbolically on fully symbolic complex psi, Hermitian symbolic rho, symbolic-parameter models, the default "
    "dictionary (sqrt(2) as an algebraic constant) and fully symbolic user-added 2x2 matrices; every output entry is "
    "compared with the dense Kronecker-product reference as an identity over all values, decided by z3 on the residual",
    functions=[
        "qucumber/utils/unitaries.py: create_dict, _kron_mult, rotate_psi, rotate_rho, _rotate_basis_state, "
        "_convert_basis_element_to_index, rotate_psi_inner_prod, rotate_rho_probs",
        "qucumber/utils/cplx.py: matmul, make_complex, numpy, conjugate, real, imag",
        "qucumber/nn_states: psi / rho of the model paths",
    ],
    bounds=dict(
        quick="explicit psi/rho: all 3^n strings for n<=2, 8 strings at n=3, 2 strings with user-added symbolic unitaries; "
        "model paths: complex (n,h)=(2,2) and mixed (2,1,1) all 9 strings, positive (2,2) 4 strings; outcome batches = all basis rows, a permuted batch with repeats, a pairwise distinct unsorted subset; call dictionaries redefining letters of the state's own dictionary (rotate_psi, rotate_rho, inner_prod, rho_probs)",
        thorough="explicit psi/rho: all 3^n strings for n<=3, all 81 strings at n=4 (rotate_psi / inner_prod; rotate_rho at n=4 on 12 strings), 36 strings at n=5 (psi paths); "
        "model paths additionally complex (3,2) on 18 strings, mixed (2,2,2) and (3,1,1)",
    ),
    outside=["n >= 5", "dictionaries with non-2x2 blocks", "floating point"],
    stubs=["torch -> vf.symtorch", "numpy typed constructors in unitaries/cplx -> object arrays (vf.shim.NPProxy)"],
    assumptions=["np.sqrt(2) and 1/np.sqrt(2) literals are lifted to the algebraic constant sqrt(2)"],
)

LETTERS = "XYZ"


def hermitian(B, D):
    O = B.O
    re = np.empty((D, D), dtype=object)
    im = np.empty((D, D), dtype=object)
    for i in range(D):
        for j in range(i, D):
            re[i, j] = re[j, i] = B.var("rho_re[%d,%d]" % (i, j))
            if i == j:
                im[i, j] = O.frac(0)
            else:
                v = B.var("rho_im[%d,%d]" % (i, j))
                im[i, j] = v
                im[j, i] = -v
    return re, im


def dense(O, udict, basis, D):
    return [[C.kron_entry(O, udict, basis, r, c) for c in range(D)] for r in range(D)]


def batch_rows(n, seed):
    rows = C.space_rows(n)
    import random

    rnd = random.Random(seed)
    extra = [rows[rnd.randrange(len(rows))] for _ in range(min(4, len(rows)))]
    b2 = list(reversed(rows)) + extra
    # pairwise distinct outcomes, not in ascending order, a proper subset for n >= 2 (nothing to de-duplicate, nothing to sort)
    b3 = list(reversed(rows))
    if len(b3) > 2:
        b3 = [b3[1], b3[0]] + b3[2:-1]
    return rows, b2, b3


def explicit(B, G, n, strings, custom=False, do_rho=True):
    """explicit psi / rho paths with fully symbolic inputs"""
    import qucumber.nn_states as nn
    from qucumber.utils import unitaries as U_

    O = B.O
    D = 2 ** n
    st = nn.ComplexWaveFunction(n, 1, gpu=False)
    space = C.space_tensor(B, n)
    pr, pi_ = B.params("psi_re", (D,)), B.params("psi_im", (D,))
    psi = B.tensor(np.stack([pr, pi_]))
    rr, ri = hermitian(B, D)
    rho = B.tensor(np.stack([rr, ri]))
    if custom:
        mats = {}
        for L in ("AB" if custom != "diagonal-only" else ""):
            m = np.stack([B.params("U%s_re" % L, (2, 2)), B.params("U%s_im" % L, (2, 2))])
            mats[L] = B.tensor(m)
        # ... and a DIAGONAL user unitary S = diag(1, i): it leaves probabilities alone but not amplitudes
        sm = np.zeros((2, 2, 2), dtype=object if B.symbolic else float)
        sm[...] = O.frac(0)
        sm[0, 0, 0], sm[1, 1, 1] = O.frac(1), O.frac(1)
        mats["S"] = B.tensor(sm)
        ud = U_.create_dict(**mats)
        G.fact("create_dict_keeps_defaults", set(ud.keys()) == set("XYZS" + ("AB" if custom != "diagonal-only" else "")), sorted(ud.keys()))
    else:
        ud = None
    libdict = ud if ud is not None else st.unitary_dict
    udict = {k: C.unitary_from_tensor(B, v) for k, v in libdict.items()}
    rows, rows2, rows3 = batch_rows(n, 7)
    for bs in strings:
        basis = list(bs)
        Ud = dense(O, udict, basis, D)
        kw = dict(unitaries=ud) if ud is not None else {}
        # U psi
        out = B.scalars(U_.rotate_psi(st, basis, space, psi=psi, **kw))
        ref = []
        for r in range(D):
            acc = O.cplx(O.frac(0))
            for c in range(D):
                acc = acc + Ud[r][c] * O.cplx(pr[c], pi_[c])
            ref.append(acc)
            G.eq("rotate_psi[%s][%d].re" % (bs, r), out[0, r], O.re(acc))
            G.eq("rotate_psi[%s][%d].im" % (bs, r), out[1, r], O.im(acc))
        # rotated amplitudes of batches of outcomes
        for bi, batch in enumerate((rows, rows2, rows3)):
            states = C.rows_tensor(B, batch)
            ip = B.scalars(U_.rotate_psi_inner_prod(st, basis, states, psi=psi, **kw))
            G.fact("inner_prod_shape[%s][b%d]" % (bs, bi), ip.shape == (2, len(batch)), ip.shape)
            if ip.shape != (2, len(batch)):
                continue  # (a wrongly shaped result is the violation; never index past it)
            for k, row in enumerate(batch):
                idx = int("".join(map(str, row)), 2)
                G.eq("inner_prod[%s][b%d][%d].re" % (bs, bi, k), ip[0, k], O.re(ref[idx]))
                G.eq("inner_prod[%s][b%d][%d].im" % (bs, bi, k), ip[1, k], O.im(ref[idx]))
        if not do_rho:
            continue
        # U rho U^dagger
        out = B.scalars(U_.rotate_rho(st, basis, space, rho=rho, **kw))
        Urho = [[None] * D for _ in range(D)]
        for r in range(D):
            for c in range(D):
                acc = O.cplx(O.frac(0))
                for k in range(D):
                    acc = acc + Ud[r][k] * O.cplx(rr[k, c], ri[k, c])
                Urho[r][c] = acc
        full = [[None] * D for _ in range(D)]
        for r in range(D):
            for c in range(D):
                acc = O.cplx(O.frac(0))
                for k in range(D):
                    acc = acc + Urho[r][k] * O.conj(Ud[c][k])
                full[r][c] = acc
                G.eq("rotate_rho[%s][%d,%d].re" % (bs, r, c), out[0, r, c], O.re(acc))
                G.eq("rotate_rho[%s][%d,%d].im" % (bs, r, c), out[1, r, c], O.im(acc))
        for bi, batch in enumerate((rows, rows2, rows3)):
            states = C.rows_tensor(B, batch)
            pp = B.scalars(U_.rotate_rho_probs(st, basis, states, rho=rho, **kw))
            G.fact("rho_probs_shape[%s][b%d]" % (bs, bi), pp.shape == (len(batch),), pp.shape)
            if pp.shape != (len(batch),):
                continue
            for k, row in enumerate(batch):
                idx = int("".join(map(str, row)), 2)
                G.eq("rho_probs[%s][b%d][%d]" % (bs, bi, k), pp[k], O.re(full[idx][idx]),
                     key="rotate_rho_probs(rho=explicit)")
    tw = next((x for x in strings if x != x[::-1]), None)
    kw = dict(unitaries=ud) if ud is not None else {}
    if tw is not None:
        wrong = sum((C.kron_entry(O, udict, list(tw)[::-1], D - 1, c) * O.cplx(pr[c], pi_[c]) for c in range(D)), O.cplx(O.frac(0)))
        G.twin("twin_site_order", B.scalars(U_.rotate_psi(st, list(tw), space, psi=psi, **kw))[0, D - 1], O.re(wrong))
    else:
        G.twin("twin_offset", B.scalars(U_.rotate_psi(st, list(strings[-1]), space, psi=psi, **kw))[0, 0], pr[0] + 1)


def two_dictionaries(B, G, n, strings):
    """history: the same letters bound to two different user dictionaries (and to the default one) in one process"""
    import qucumber.nn_states as nn
    from qucumber.utils import unitaries as U_

    O = B.O
    D = 2 ** n
    st = nn.ComplexWaveFunction(n, 1, gpu=False)
    pr, pi_ = B.params("psi_re", (D,)), B.params("psi_im", (D,))
    psi = B.tensor(np.stack([pr, pi_]))
    rr, ri = hermitian(B, D)
    rho = B.tensor(np.stack([rr, ri]))
    rows, rows2, rows3 = batch_rows(n, 3)
    states = C.rows_tensor(B, rows2)
    space = C.space_tensor(B, n)
    for rnd in range(3):
        mats = {L: B.tensor(np.stack([B.params("U%s%d_re" % (L, rnd), (2, 2)), B.params("U%s%d_im" % (L, rnd), (2, 2))])) for L in "AX"}
        ud = U_.create_dict(**mats) if rnd < 2 else U_.create_dict(A=mats["A"])
        udict = {k: C.unitary_from_tensor(B, v) for k, v in ud.items()}
        for bs in strings:
            Ud = dense(O, udict, list(bs), D)
            ip = B.scalars(U_.rotate_psi_inner_prod(st, list(bs), states, psi=psi, unitaries=ud))
            pp = B.scalars(U_.rotate_rho_probs(st, list(bs), states, rho=rho, unitaries=ud))
            full = B.scalars(U_.rotate_psi(st, list(bs), space, psi=psi, unitaries=ud))
            # the dictionary given in the call decides, also for letters the state's own dictionary defines differently
            rr_out = B.scalars(U_.rotate_rho(st, list(bs), space, rho=rho, unitaries=ud))
            for r in range(D):
                for c in range(D):
                    acc = O.cplx(O.frac(0))
                    for i in range(D):
                        for j in range(D):
                            acc = acc + Ud[r][i] * O.cplx(rr[i, j], ri[i, j]) * O.conj(Ud[c][j])
                    G.eq("round%d.rotate_rho[%s][%d,%d].re" % (rnd, bs, r, c), rr_out[0, r, c], O.re(acc))
                    G.eq("round%d.rotate_rho[%s][%d,%d].im" % (rnd, bs, r, c), rr_out[1, r, c], O.im(acc))
            if rnd == 0:
                # a state BUILT with this dictionary: explicit psi / rho and no dictionary in the call -> the state's own one is used
                own = nn.ComplexWaveFunction(n, 1, unitary_dict=ud, gpu=False)
                f_own = B.scalars(U_.rotate_psi(own, list(bs), space, psi=psi))
                r_own = B.scalars(U_.rotate_rho(own, list(bs), space, rho=rho))
                ip_own = B.scalars(U_.rotate_psi_inner_prod(own, list(bs), space, psi=psi))
                for r in range(D):
                    G.eq("state_dictionary.rotate_psi[%s][%d].re" % (bs, r), f_own[0, r], full[0, r])
                    G.eq("state_dictionary.rotate_psi[%s][%d].im" % (bs, r), f_own[1, r], full[1, r])
                    G.eq("state_dictionary.inner_prod[%s][%d].re" % (bs, r), ip_own[0, r], full[0, r])
                    G.eq("state_dictionary.rotate_rho[%s][%d,%d].re" % (bs, r, D - 1 - r), r_own[0, r, D - 1 - r], rr_out[0, r, D - 1 - r])
            ip3 = B.scalars(U_.rotate_psi_inner_prod(st, list(bs), C.rows_tensor(B, rows3), psi=psi, unitaries=ud))
            for k, row in enumerate(rows3):
                idx = int("".join(map(str, row)), 2)
                G.eq("round%d.inner_prod_distinct_unsorted[%s][%d].re" % (rnd, bs, k), ip3[0, k], full[0, idx])
            for k, row in enumerate(rows2):
                idx = int("".join(map(str, row)), 2)
                acc = O.cplx(O.frac(0))
                for c in range(D):
                    acc = acc + Ud[idx][c] * O.cplx(pr[c], pi_[c])
                G.eq("round%d.inner_prod[%s][%d].re" % (rnd, bs, k), ip[0, k], O.re(acc))
                G.eq("round%d.inner_prod[%s][%d].im" % (rnd, bs, k), ip[1, k], O.im(acc))
                G.eq("round%d.rotate_psi[%s][%d].re" % (rnd, bs, k), full[0, idx], O.re(acc))
                dg = O.cplx(O.frac(0))
                for i in range(D):
                    for j in range(D):
                        dg = dg + Ud[idx][i] * O.cplx(rr[i, j], ri[i, j]) * O.conj(Ud[idx][j])
                G.eq("round%d.rho_probs[%s][%d]" % (rnd, bs, k), pp[k], O.re(dg))
    # after user dictionaries overriding default letters were built, the default dictionary is still the default
    fresh = U_.create_dict()
    G.fact("defaults_survive_overrides.keys", sorted(fresh.keys()) == ["X", "Y", "Z"], sorted(fresh.keys()))
    m = C.unitary_from_tensor(B, fresh["X"])
    s2 = 1 / O.sqrt2()
    for r in range(2):
        for c in range(2):
            G.eq("defaults_survive_overrides.X[%d,%d].re" % (r, c), O.re(m[r][c]), s2 * (-1 if (r == 1 and c == 1) else 1))
            G.eq("defaults_survive_overrides.X[%d,%d].im" % (r, c), O.im(m[r][c]), O.frac(0))
    st2 = nn.ComplexWaveFunction(n, 1, gpu=False)
    G.fact("new_state_has_default_dictionary", sorted(st2.unitary_dict.keys()) == ["X", "Y", "Z"], sorted(st2.unitary_dict.keys()))
    m2 = C.unitary_from_tensor(B, st2.unitary_dict["X"])
    G.eq("new_state_X[1,1]", O.re(m2[1][1]), -s2)
    G.twin("twin_rounds_differ", B.scalars(mats["A"])[0, 0, 0], pr[0])


def dictionary(B, G):
    """default dictionary: Z = identity, rows of X / Y are the +1, -1 eigenvectors of the Pauli operators"""
    from qucumber.utils import unitaries as U_

    O = B.O
    d = U_.create_dict()
    G.fact("keys", sorted(d.keys()) == ["X", "Y", "Z"], sorted(d.keys()))
    m = {k: C.unitary_from_tensor(B, v) for k, v in d.items()}
    one, zero = O.frac(1), O.frac(0)
    pauli = {
        "X": [[O.cplx(zero), O.cplx(one)], [O.cplx(one), O.cplx(zero)]],
        "Y": [[O.cplx(zero), O.cplx(zero, -one)], [O.cplx(zero, one), O.cplx(zero)]],
    }
    for r in range(2):
        for c in range(2):
            G.eq("Z[%d,%d].re" % (r, c), O.re(m["Z"][r][c]), one if r == c else zero)
            G.eq("Z[%d,%d].im" % (r, c), O.im(m["Z"][r][c]), zero)
    for L in "XY":
        for r, ev in ((0, 1), (1, -1)):
            # the row, as a bra <e|, is the conjugate transpose of the eigen-ket: sigma |e> = ev |e>, |e>_c = conj(row_c)
            ket = [O.conj(m[L][r][c]) for c in range(2)]
            nrm = O.frac(0)
            for c in range(2):
                acc = O.cplx(zero)
                for k in range(2):
                    acc = acc + pauli[L][c][k] * ket[k]
                G.eq("%s_row%d_eig[%d].re" % (L, r, c), O.re(acc), ev * O.re(ket[c]))
                G.eq("%s_row%d_eig[%d].im" % (L, r, c), O.im(acc), ev * O.im(ket[c]))
                nrm = nrm + O.abs2(ket[c])
            G.eq("%s_row%d_norm" % (L, r), nrm, one, tol=1e-13)  # (double-precision constants: the float run must agree to ~1e-16)
    # unitarity of every default matrix
    for L in "XYZ":
        for r in range(2):
            for c in range(2):
                acc = O.cplx(zero)
                for k in range(2):
                    acc = acc + m[L][r][k] * O.conj(m[L][c][k])
                G.eq("%s_unitary[%d,%d].re" % (L, r, c), O.re(acc), one if r == c else zero, tol=1e-13)
                G.eq("%s_unitary[%d,%d].im" % (L, r, c), O.im(acc), zero)
    G.twin("twin_y_sign", O.im(m["Y"][0][1]), -O.im(m["Y"][0][1]))


def model(B, G, kind, n, h, a, strings):
    """model-derived paths: the state's own psi / rho"""
    from qucumber.utils import unitaries as U_

    O = B.O
    D = 2 ** n
    st, P = C.make_state(B, kind, n, h, a)
    space = C.space_tensor(B, n)
    rows, rows2, rows3 = batch_rows(n, 11)
    Z = B.scalars(st.normalization(space)).reshape(-1)[0]
    if kind == "mixed":
        rho = B.scalars(st.rho(space, space))
        import itertools as it

        auxs = list(it.product((0, 1), repeat=a))
        udict = {k: C.unitary_from_tensor(B, v) for k, v in st.unitary_dict.items()}
        for bs in strings:
            basis = list(bs)
            Ud = dense(O, udict, basis, D)
            diag = []
            for r in range(D):
                acc = O.cplx(O.frac(0))
                for i in range(D):
                    for j in range(D):
                        acc = acc + Ud[r][i] * O.cplx(rho[0, i, j], rho[1, i, j]) * O.conj(Ud[r][j])
                diag.append(acc)
            for bi, batch in enumerate((rows, rows2, rows3)):
                states = C.rows_tensor(B, batch)
                pp = B.scalars(U_.rotate_rho_probs(st, basis, states))
                tot = O.frac(0)
                for k, row in enumerate(batch):
                    idx = int("".join(map(str, row)), 2)
                    G.eq("model_rho_probs[%s][b%d][%d]" % (bs, bi, k), pp[k], O.re(diag[idx]))
                    tot = tot + pp[k]
                if bi == 0:
                    G.eq("rho_probs_sum_to_Z[%s]" % bs, tot, Z)
                    # non-negativity: (U rho U^dagger)_rr = sum_a |sum_i U_ri Psi(i,a)|^2  (identity), then a sum of squares
                    for r in range(D):
                        sos = O.frac(0)
                        for av in auxs:
                            y = O.cplx(O.frac(0))
                            for i, v in enumerate(rows):
                                y = y + Ud[r][i] * C.purification_amp(O, P["am"], P["ph"], v, av)
                            sos = sos + O.abs2(y)
                        G.eq("rho_prob_is_sum_of_squares[%s][%d]" % (bs, r), pp[r], sos)
            out = B.scalars(U_.rotate_rho(st, basis, space))
            for r in range(D):
                G.eq("model_rotate_rho_diag[%s][%d]" % (bs, r), out[0, r, r], O.re(diag[r]))
        ys = B.params("y", (4,))
        G.nonneg("sum_of_squares_nonneg", ys[0] * ys[0] + ys[1] * ys[1] + ys[2] * ys[2] + ys[3] * ys[3])
    else:
        psi = B.scalars(st.psi(space))
        udict = {k: C.unitary_from_tensor(B, v) for k, v in (st.unitary_dict if kind == "complex" else U_.create_dict()).items()}
        kw = {} if kind == "complex" else dict(unitaries=U_.create_dict())
        for bs in strings:
            basis = list(bs)
            Ud = dense(O, udict, basis, D)
            ref = []
            for r in range(D):
                acc = O.cplx(O.frac(0))
                for c in range(D):
                    acc = acc + Ud[r][c] * O.cplx(psi[0, c], psi[1, c])
                ref.append(acc)
            out = B.scalars(U_.rotate_psi(st, basis, space, **kw))
            tot = O.frac(0)
            for r in range(D):
                G.eq("model_rotate_psi[%s][%d].re" % (bs, r), out[0, r], O.re(ref[r]))
                G.eq("model_rotate_psi[%s][%d].im" % (bs, r), out[1, r], O.im(ref[r]))
                tot = tot + out[0, r] * out[0, r] + out[1, r] * out[1, r]
            G.eq("born_probs_sum_to_Z[%s]" % bs, tot, Z)
            for bi, batch in enumerate((rows, rows2, rows3)):
                states = C.rows_tensor(B, batch)
                ip, ipv, vexp = U_.rotate_psi_inner_prod(st, basis, states, include_extras=True, **kw)
                ip, ipv = B.scalars(ip), B.scalars(ipv)
                for k, row in enumerate(batch):
                    idx = int("".join(map(str, row)), 2)
                    G.eq("model_inner_prod[%s][b%d][%d].re" % (bs, bi, k), ip[0, k], O.re(ref[idx]))
                    G.eq("model_inner_prod[%s][b%d][%d].im" % (bs, bi, k), ip[1, k], O.im(ref[idx]))
                    sre = sum((ipv[0, t, k] for t in range(ipv.shape[1])), O.frac(0))
                    G.eq("extras_sum[%s][b%d][%d]" % (bs, bi, k), sre, ip[0, k])
        ys = B.params("y", (2,))
        G.nonneg("sum_of_squares_nonneg", ys[0] * ys[0] + ys[1] * ys[1])
    G.twin("twin_Z", Z, 2 * Z)


def all_strings(n, letters=LETTERS):
    return ["".join(t) for t in itertools.product(letters, repeat=n)]


def jobs(tier):
    J = []

    def add(name, scen, **kw):
        J.append(dict(name=name, module="checks.c04", scenario=scen, kwargs=kw))

    add("dictionary", "dictionary")
    J[-1]["opts"] = dict(extreme=dict(scale=1.0, points=1))  # no parameters: one real-torch run checks the constants in floating point
    add("explicit-n1", "explicit", n=1, strings=all_strings(1))
    add("explicit-n2", "explicit", n=2, strings=all_strings(2))
    add("custom-n2", "explicit", n=2, strings=["AB", "XA", "BY", "AA", "SX", "ZS"], custom=True)
    # a dictionary whose every entry is a concrete matrix (code that inspects the matrices - "is this one diagonal?" - can run)
    add("custom-diagonal-n2", "explicit", n=2, strings=["SX", "ZS", "SS", "YS"], custom="diagonal-only")
    add("two-dictionaries-n2", "two_dictionaries", n=2, strings=["AX", "XA", "ZA"])
    if tier == "quick":
        add("explicit-n3", "explicit", n=3, strings=["XYZ", "ZYX", "YYX", "XZY", "ZZY", "YXX", "ZZZ", "YZY"])
        add("model-complex-2x2", "model", kind="complex", n=2, h=2, a=None, strings=all_strings(2))
        add("model-mixed-211", "model", kind="mixed", n=2, h=1, a=1, strings=all_strings(2))
        add("model-positive-2x2", "model", kind="positive", n=2, h=2, a=None, strings=["XY", "YZ", "ZZ", "YY"])
    else:
        s3 = all_strings(3)
        for k in range(0, 27, 9):
            add("explicit-n3-%d" % k, "explicit", n=3, strings=s3[k : k + 9])
        add("custom-n3", "explicit", n=3, strings=["ABX", "YAZ", "BBA"], custom=True)
        s4 = all_strings(4)
        for k in range(0, 81, 9):
            add("explicit-n4-psi-%d" % k, "explicit", n=4, strings=s4[k : k + 9], do_rho=False)
        for k, grp in enumerate((["XYZY", "YYXZ", "ZXYY"], ["YZZX", "XXYY", "YXYX"], ["ZYZY", "YYYY", "XZYZ"], ["YZXY", "ZZZY", "XYXY"])):
            add("explicit-n4-rho-%d" % k, "explicit", n=4, strings=grp)
        add("model-complex-2x2", "model", kind="complex", n=2, h=2, a=None, strings=all_strings(2))
        add("model-complex-3x2", "model", kind="complex", n=3, h=2, a=None, strings=["XYZ", "YYX", "ZXY", "YZY", "XXX", "YYY", "ZZZ", "ZYX", "YXZ"])
        add("model-mixed-211", "model", kind="mixed", n=2, h=1, a=1, strings=all_strings(2))
        add("model-mixed-222", "model", kind="mixed", n=2, h=2, a=2, strings=["XY", "YY", "ZY", "YX"])
        add("model-positive-2x2", "model", kind="positive", n=2, h=2, a=None, strings=all_strings(2))
        add("model-complex-3x2-b", "model", kind="complex", n=3, h=2, a=None, strings=["XXY", "YXY", "ZYZ", "XZX", "YYZ", "ZXZ", "XYX", "YZZ", "ZZX"])
        add("model-mixed-311", "model", kind="mixed", n=3, h=1, a=1, strings=["XYZ", "YYX", "ZZY"])
        s5 = all_strings(5)
        import random as _r
        _r.Random(5).shuffle(s5)
        for k in range(0, 36, 6):
            add("explicit-n5-psi-%d" % k, "explicit", n=5, strings=s5[k : k + 6], do_rho=False)
        add("two-dictionaries-n3", "two_dictionaries", n=3, strings=["AXZ", "XAA", "ZXA"])
    return J


def main(tier, seed):
    return harness.run_check(PID, tier, jobs(tier), META, seed=seed)
