"""C01 Born rule for wavefunction states (DESIGN.md section 2 / C01)."""
import numpy as np
from . import common as C
from vf import harness

PID = "C01"

META = dict(
    level="other",
    explanation="bounded SMT verification: the library's psi/amplitude/phase/probability/normalization are executed "
    "symbolically (every weight and bias its own real variable); each goal is an identity or sign claim over ALL real "
    "parameter values, decided by z3 on the normal-form residual; structural bounds (architectures) as listed",
    functions=[
        "qucumber/nn_states/wavefunction.py: WaveFunctionBase.amplitude, psi",
        "qucumber/nn_states/positive_wavefunction.py: PositiveWaveFunction.phase, psi, amplitude",
        "qucumber/nn_states/complex_wavefunction.py: ComplexWaveFunction.phase, psi, amplitude",
        "qucumber/nn_states/neural_state.py: NeuralStateBase.probability, normalization, generate_hilbert_space",
        "qucumber/rbm/binary_rbm.py: BinaryRBM.effective_energy, partition",
        "qucumber/utils/__init__.py: auto_unsqueeze_args",
    ],
    bounds=dict(
        quick="positive and complex states, (num_visible, num_hidden) in {(1,1),(1,2),(2,1),(2,2),(2,3),(3,2),(3,3)}, all 2^n basis states, batched and 1-D call forms; real-torch float runs at 2 parameter points of magnitude <= 10 per job",
        thorough="positive and complex states, num_visible 1..5 x num_hidden 1..6 (30 architectures), all 2^n basis states, batched and 1-D call forms",
    ),
    outside=["floating-point rounding / overflow (claim is over the reals)", "num_visible > 5, num_hidden > 6", "GPU / device moves"],
    stubs=["torch -> vf.symtorch (exact real semantics of each primitive)"],
)


def scenario(B, G, kind, n, h):
    O = B.O
    st, P = C.make_state(B, kind, n, h)
    rows = C.space_rows(n)
    space = C.space_tensor(B, n)
    psi = B.scalars(st.psi(space))
    prob = B.scalars(st.probability(space))
    amp = B.scalars(st.amplitude(space))
    ph = B.scalars(st.phase(space))
    Z = B.scalars(st.normalization(space)).reshape(-1)[0]
    G.fact("shapes", psi.shape == (2, 2 ** n) and prob.shape == (2 ** n,) and amp.shape == (2 ** n,) and ph.shape == (2 ** n,),
           "psi %s prob %s amp %s phase %s" % (psi.shape, prob.shape, amp.shape, ph.shape))
    tot = O.frac(0)
    for k, v in enumerate(rows):
        re, im = psi[0, k], psi[1, k]
        G.eq("born[%d]" % k, re * re + im * im, prob[k], tol=1e-10)  # products and squares of doubles: compared relatively (no absolute slack), so that tiny probabilities count
        G.eq("marginal[%d]" % k, prob[k], C.rbm_hidden_marginal(O, P["am"], v))
        G.eq("amp2[%d]" % k, amp[k] * amp[k], prob[k], tol=1e-10)
        G.nonneg("amp>=0[%d]" % k, amp[k])
        if kind.startswith("complex"):
            phase_ref = O.frac(1, 2) * C.rbm_neg_eff_energy(O, P["ph"], v)
            G.eq("phase[%d]" % k, ph[k], phase_ref)
            G.eq("re[%d]" % k, re, amp[k] * O.cos(phase_ref))
            G.eq("im[%d]" % k, im, amp[k] * O.sin(phase_ref))
        else:
            G.eq("phase0[%d]" % k, ph[k], O.frac(0))
            G.eq("im0[%d]" % k, im, O.frac(0))
            G.eq("re=amp[%d]" % k, re, amp[k])
            G.nonneg("re>=0[%d]" % k, re)
        tot = tot + prob[k]
        # 1-D (single vector) call forms agree with the batched ones
        v1 = C.rows_tensor(B, [v])[0]
        p1 = B.scalars(st.psi(v1))
        G.fact("vecshape[%d]" % k, tuple(p1.shape) == (2,), "psi(v) shape %s" % (p1.shape,))
        G.eq("vec_re[%d]" % k, p1.reshape(-1)[0], re)
        G.eq("vec_im[%d]" % k, p1.reshape(-1)[1], im)
        G.eq("vec_prob[%d]" % k, B.scalars(st.probability(v1)).reshape(-1)[0], prob[k])
        G.eq("probZ[%d]" % k, B.scalars(st.probability(space, Z)).reshape(-1)[k] * Z, prob[k])
    G.eq("Z", Z, tot)
    G.pos("Z>0", Z)
    # the normalisation tensor handed to probability() is the caller's: it must survive the call and be reusable
    Zt = st.normalization(space)
    Zt_before = B.scalars(Zt).copy()
    p_a = B.scalars(st.probability(space, Zt))
    G.fact("Z_tensor_unchanged_by_probability", bool(np.array_equal(B.scalars(Zt), Zt_before)) if not B.symbolic else B.scalars(Zt).reshape(-1)[0] is Zt_before.reshape(-1)[0], "normalisation tensor after probability(v, Z)")
    p_b = B.scalars(st.probability(space, Zt))
    for k in range(len(rows)):
        G.eq("probZ_tensor_first[%d]" % k, p_a[k] * Z, prob[k])
        G.eq("probZ_tensor_again[%d]" % k, p_b[k] * Z, prob[k])
    # results the caller still holds are not overwritten by later calls of the same shape (batched and single-state forms)
    held = st.probability(space)
    later = st.probability(space, Zt)
    ones = [st.probability(C.rows_tensor(B, [v])[0]) for v in rows]
    hv, lv = B.scalars(held), B.scalars(later)
    for k in range(len(rows)):
        G.eq("held_result[%d]" % k, hv[k], prob[k])
        G.eq("later_result[%d]" % k, lv[k] * Z, prob[k])
        G.eq("held_single_state_result[%d]" % k, B.scalars(ones[k]).reshape(-1)[0], prob[k])
    # history: the same object, re-parameterised in place (written through .data), must report the new state
    P2 = {net: C.load_rbm(B, getattr(st, "rbm_" + net), net + "'") for net in P}
    prob2 = B.scalars(st.probability(space))
    psi2 = B.scalars(st.psi(space))
    Z2 = B.scalars(st.normalization(space)).reshape(-1)[0]
    tot2 = O.frac(0)
    for k, v in enumerate(rows):
        tot2 = tot2 + prob2[k]
        G.eq("reparam.marginal[%d]" % k, prob2[k], C.rbm_hidden_marginal(O, P2["am"], v))
        G.eq("reparam.born[%d]" % k, psi2[0, k] * psi2[0, k] + psi2[1, k] * psi2[1, k], prob2[k], tol=1e-10)
    G.eq("reparam.Z", Z2, tot2)
    # sensitivity twins (must be refuted by the solver and replay as numeric differences)
    G.twin("twin_marginal", prob[0], 2 * C.rbm_hidden_marginal(O, P["am"], rows[0]))
    if n >= 1:
        G.twin("twin_state", prob[-1], prob[0])


def jobs(tier):
    if tier == "quick":
        archs = [(1, 1), (1, 2), (2, 1), (2, 2), (2, 3), (3, 2), (3, 3)]
    else:
        archs = [(n, h) for n in range(1, 6) for h in range(1, 7)]
    out = []
    for kind in ("positive", "complex"):
        for n, h in archs:
            out.append(dict(name="%s-%dx%d" % (kind, n, h), module="checks.c01", scenario="scenario", kwargs=dict(kind=kind, n=n, h=h)))
    out.append(dict(name="complex-module-2x3", module="checks.c01", scenario="scenario", kwargs=dict(kind="complex-module", n=2, h=3)))
    if tier == "quick":
        out.append(dict(name="positive-5x1", module="checks.c01", scenario="scenario", kwargs=dict(kind="positive", n=5, h=1)))
    for j in out:  # the property's range: magnitudes up to ~30 (pre-activations reach n * 10 + 10 here)
        j["opts"] = dict(extreme=dict(scale=10.0, points=2))
    # largest first so the pool is balanced
    out.sort(key=lambda j: -(2 ** j["kwargs"]["n"]) * (2 ** j["kwargs"]["h"]))
    return out


def main(tier, seed):
    return harness.run_check(PID, tier, jobs(tier), META, seed=seed)
