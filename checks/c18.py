"""C18 Early stopping halts exactly when its documented convergence rule is met (pathfork over the real callbacks + fit)."""
import contextlib
import io
import warnings
from vf import harness, e2

PID = "C18"

META = dict(
    level="model_checking",
    explanation="path-by-path symbolic execution (pathfork): the monitored values, their variances and the tolerance are symbolic "
    "REALS, patience a symbolic integer; the real EarlyStopping / VarianceBasedEarlyStopping / MetricEvaluator / ObservableEvaluator "
    "run inside the real fit loop; z3 decides every comparison branch; on every feasible path the epoch at which training stopped "
    "equals the reference decision procedure written from the documented formulas",
    functions=["qucumber/callbacks/early_stopping.py: EarlyStopping.__init__, _change_in_metric, _relative_change, _absolute_change, _variance_scaled_abs_change, on_epoch_end",
               "qucumber/callbacks/variance_based_early_stopping.py: VarianceBasedEarlyStopping",
               "qucumber/callbacks/metric_evaluator.py: MetricEvaluator.on_epoch_end, get_value, __len__",
               "qucumber/callbacks/observable_evaluator.py: ObservableEvaluator.on_epoch_end, get_value, __len__",
               "qucumber/nn_states/neural_state.py: fit (stop handling)"],
    bounds=dict(quick="sequences of 5 evaluations (all real values, incl. zeros / equal / sign changes), tolerance >= 0 real, patience 1..3, evaluator and stopper periods in {1,2} plus (2,3),(3,2), criteria relative / absolute / variance in any spelling; mutable metric values",
                thorough="7 evaluations, patience 1..5, periods in {1,2,3}"),
    outside=["the statistics behind ObservableEvaluator (System.statistics is scripted)", "longer runs than the bound"],
    stubs=["metric functions / System.statistics -> scripted symbolic sequences", "numerics of training stubbed as in C12"],
    assumptions=["relative criterion with M_{t-p} == 0 divides by zero in the library (ZeroDivisionError); such paths are reported as outside the rule, not as violations"],
)


def _bare():
    from checks.c12 import _state

    return _state("bare")


class _Opt:
    def __init__(self, params, lr=None, **kw):
        pass

    def zero_grad(self):
        pass

    def step(self):
        pass


class Box:
    """a MUTABLE number, as a 0-dim tensor returned by a user metric is: arithmetic gives new objects, the in-place operators
    change the object itself (so a stopper that computes with `-=` on a recorded value rewrites the evaluator's history)"""

    def __init__(self, v):
        self.v = v

    @staticmethod
    def _u(o):
        return o.v if isinstance(o, Box) else o

    def __sub__(self, o):
        return Box(self.v - Box._u(o))

    def __rsub__(self, o):
        return Box(Box._u(o) - self.v)

    def __add__(self, o):
        return Box(self.v + Box._u(o))

    __radd__ = __add__

    def __mul__(self, o):
        return Box(self.v * Box._u(o))

    __rmul__ = __mul__

    def __truediv__(self, o):
        return Box(self.v / Box._u(o))

    def __rtruediv__(self, o):
        return Box(Box._u(o) / self.v)

    def __neg__(self):
        return Box(-self.v)

    def __abs__(self):
        return Box(abs(self.v))

    def __isub__(self, o):
        self.v = self.v - Box._u(o)
        return self

    def __iadd__(self, o):
        self.v = self.v + Box._u(o)
        return self

    def __imul__(self, o):
        self.v = self.v * Box._u(o)
        return self

    def __itruediv__(self, o):
        self.v = self.v / Box._u(o)
        return self

    def __lt__(self, o):
        return self.v < Box._u(o)

    def __le__(self, o):
        return self.v <= Box._u(o)

    def __gt__(self, o):
        return self.v > Box._u(o)

    def __ge__(self, o):
        return self.v >= Box._u(o)

    def __eq__(self, o):
        return self.v == Box._u(o)

    def __ne__(self, o):
        return self.v != Box._u(o)

    __hash__ = None

    def __format__(self, spec):
        return "<box>"


def stopping(I, n=5, criterion="absolute", ev_period=1, es_period=1, source="metric", deprecated=False, twin=False, other_stop=False, boxed=False):
    import torch
    from qucumber.callbacks import MetricEvaluator, ObservableEvaluator, EarlyStopping, VarianceBasedEarlyStopping, LambdaCallback
    from qucumber.observables import SigmaZ

    vals = [I["v%d" % i] for i in range(n)]
    var = [I.get("s%d" % i, 1.0) for i in range(n)]
    tol, patience = I["tol"], I["patience"]
    st = _bare()
    it = iter(range(n))
    if source == "metric":
        ev = MetricEvaluator(ev_period, {"m": (lambda s: Box(vals[next(it)])) if boxed else (lambda s: vals[next(it)])})
        name = "m"
    else:
        from qucumber.observables import SigmaX

        # a second tracked observable with its own (different) statistics: the stopper reads only the monitored quantity's
        ev = ObservableEvaluator(ev_period, [SigmaZ(), SigmaX()], num_samples=1)
        name = "SigmaZ"

        def scripted(nn_state, **kw):
            k = next(it)
            return {"SigmaZ": {"mean": vals[k], "variance": var[k], "std_error": 0.0, "num_samples": 1},
                    "SigmaX": {"mean": 7.0 - k, "variance": 4.0 * (k + 1), "std_error": 0.0, "num_samples": 1}}

        ev.system.statistics = scripted
    with warnings.catch_warnings():
        warnings.simplefilter("ignore")
        if deprecated:
            # variance_name is documented as ignored (kept for backward compatibility), also when it names another tracked observable
            es = VarianceBasedEarlyStopping(es_period, tol, patience, ev, name, variance_name="SigmaX")
        else:
            es = EarlyStopping(es_period, tol, patience, ev, name, criterion=criterion)
    seen = []
    rec = LambdaCallback(on_epoch_end=lambda s, ep: seen.append(ep))
    other_at = I.get("other_at", 0) if other_stop else 0

    def other(s, ep):
        if ep == other_at:
            s.stop_training = True

    first_cb = LambdaCallback(on_epoch_end=other)
    epochs = n * ev_period
    data = torch.tensor([[0.0, 1.0], [1.0, 1.0]], dtype=torch.double)
    zero_div = False
    try:
        with contextlib.redirect_stdout(io.StringIO()):
            st.fit(data, epochs=epochs, pos_batch_size=2, callbacks=([first_cb] if other_stop else []) + [ev, es, rec], optimizer=_Opt)
    except ZeroDivisionError:
        zero_div = True
    p = int(patience)
    # reference decision procedure, written from the documented formulas
    hist = []
    stop_at = None
    k = 0
    ref_zero_div = False
    for ep in range(1, epochs + 1):
        if ep % ev_period == 0:
            hist.append((vals[k], var[k]))
            k += 1
        if ep % es_period == 0 and len(hist) > p + (1 if twin else 0):
            m_old, s_old = hist[-1 - p]
            m_now = hist[-1][0]
            diff = abs(m_old - m_now)
            if criterion == "relative" and not deprecated:
                if m_old == 0:
                    ref_zero_div = True
                    break
                dev = diff / abs(m_old)
            elif criterion == "absolute" and not deprecated:
                dev = diff
            else:
                # |M_{t-p} - M_t| / sigma_{t-p} < tol   <=>   |M_{t-p} - M_t|^2 < tol^2 * variance_{t-p}   (tol >= 0, variance > 0)
                dev = None
                if (diff * diff < tol * tol * s_old) if True else False:
                    stop_at = ep
                    break
                continue
            if dev < tol:
                stop_at = ep
                break
    if zero_div or ref_zero_div:
        ok = zero_div == ref_zero_div
        return ok, "relative criterion divides by M_{t-p} == 0: library ZeroDivisionError=%s, rule undefined=%s" % (zero_div, ref_zero_div)
    got = es.last_epoch
    last_seen = seen[-1] if seen else None
    want_last = stop_at if stop_at is not None else epochs
    if other_stop:
        oa = int(other_at)
        if 1 <= oa <= epochs and (stop_at is None or oa <= stop_at):
            # the other callback's request ends the run at epoch oa; the stopper may or may not have fired at oa itself
            if last_seen != oa or not st.stop_training:
                return False, "a stop requested by another callback at epoch %d was lost: ran until %r, stop_training=%r" % (oa, last_seen, st.stop_training)
            if oa < (stop_at or epochs + 1) and got is not None:
                return False, "stopper fired at %r although its rule is first met at %r" % (got, stop_at)
            return True, ""
    if got != stop_at:
        return False, "stopped at %r, rule says %r (patience %d, criterion %s)" % (got, stop_at, p, "variance" if deprecated else criterion)
    if last_seen != want_last or bool(st.stop_training) != (stop_at is not None):
        return False, "training ran until epoch %r, expected %r" % (last_seen, want_last)
    return True, ""


def construction(I):
    """variance criterion is refused for plain metrics; the deprecated class is the variance criterion"""
    from qucumber.callbacks import MetricEvaluator, ObservableEvaluator, EarlyStopping, VarianceBasedEarlyStopping

    me = MetricEvaluator(1, {"m": lambda s: 0.0})
    try:
        EarlyStopping(1, 0.1, I["patience"], me, "m", criterion="variance")
        return False, "variance criterion accepted for a MetricEvaluator"
    except TypeError:
        pass
    # criterion names are matched ignoring case and surrounding blanks - also by the refusal
    for spelled in ("Variance", "VARIANCE", " variance ", "variance\t"):
        try:
            EarlyStopping(1, 0.1, I["patience"], me, "m", criterion=spelled)
            return False, "variance criterion spelled %r accepted for a MetricEvaluator" % spelled
        except TypeError:
            pass
    for spelled in ("Absolute", " RELATIVE "):
        if EarlyStopping(1, 0.1, I["patience"], me, "m", criterion=spelled).criterion != spelled.strip().lower():
            return False, "criterion %r not normalised" % spelled
    try:
        with warnings.catch_warnings():
            warnings.simplefilter("ignore")
            VarianceBasedEarlyStopping(1, 0.1, I["patience"], me, "m")
        return False, "VarianceBasedEarlyStopping accepted a MetricEvaluator"
    except TypeError:
        pass
    try:
        EarlyStopping(1, 0.1, I["patience"], me, "m", criterion="bogus")
        return False, "unknown criterion accepted"
    except ValueError:
        pass
    oe = ObservableEvaluator(1, [])
    with warnings.catch_warnings():
        warnings.simplefilter("ignore")
        d = VarianceBasedEarlyStopping(1, 0.1, I["patience"], oe, "x")
    return d.criterion == "variance", "deprecated class criterion %r" % d.criterion


def specs(tier):
    S = []
    n = 5 if tier == "quick" else 7
    pmax = 3 if tier == "quick" else 5
    periods = (1, 2) if tier == "quick" else (1, 2, 3)

    def inputs(with_var):
        d = {"v%d" % i: ("real", -100, 100) for i in range(n)}
        if with_var:
            d.update({"s%d" % i: ("real", 0.001, 100) for i in range(n)})
        d["tol"] = ("real", 0, 1000)
        d["patience"] = ("int", 1, pmax)
        return d

    for crit in ("absolute", "relative"):
        for pe in periods:
            for ps in periods:
                S.append(dict(name="%s-metric-ev%d-es%d" % (crit, pe, ps), module="checks.c18", function="stopping",
                              kwargs=dict(n=n, criterion=crit, ev_period=pe, es_period=ps, source="metric"), inputs=inputs(False)))
        S.append(dict(name="%s-observable" % crit, module="checks.c18", function="stopping",
                      kwargs=dict(n=n, criterion=crit, source="observable"), inputs=inputs(True)))
    for pe, ps in ((1, 1), (1, 2), (2, 1)):
        S.append(dict(name="variance-observable-ev%d-es%d" % (pe, ps), module="checks.c18", function="stopping",
                      kwargs=dict(n=n, criterion="variance", ev_period=pe, es_period=ps, source="observable"), inputs=inputs(True)))
    S.append(dict(name="deprecated-class", module="checks.c18", function="stopping",
                  kwargs=dict(n=n, criterion="variance", source="observable", deprecated=True), inputs=inputs(True)))
    # metric values that are mutable objects (0-dim tensors): the stopper must not change the recorded history by computing with it
    for crit, pe, ps in (("absolute", 2, 1), ("relative", 1, 1), ("absolute", 1, 1)):
        S.append(dict(name="%s-mutable-metric-values-ev%d-es%d" % (crit, pe, ps), module="checks.c18", function="stopping",
                      kwargs=dict(n=4, criterion=crit, ev_period=pe, es_period=ps, source="metric", boxed=True),
                      inputs={**{"v%d" % i: ("real", -100, 100) for i in range(4)}, "tol": ("real", 0, 1000), "patience": ("int", 1, 2)}))
    for pe, ps in ((2, 3), (3, 2)):
        S.append(dict(name="absolute-metric-coprime-periods-ev%d-es%d" % (pe, ps), module="checks.c18", function="stopping",
                      kwargs=dict(n=4, criterion="absolute", ev_period=pe, es_period=ps, source="metric"),
                      inputs={**{"v%d" % i: ("real", -100, 100) for i in range(4)}, "tol": ("real", 0, 1000), "patience": ("int", 1, 2)}))
    S.append(dict(name="absolute-with-other-stopper", module="checks.c18", function="stopping", kwargs=dict(n=n, criterion="absolute", source="metric", other_stop=True),
                  inputs=dict(inputs(False), other_at=("int", 0, n))))
    S.append(dict(name="construction", module="checks.c18", function="construction", kwargs={}, inputs={"patience": ("int", 1, pmax)}))
    S.append(dict(name="twin-off-by-one-reference", module="checks.c18", function="stopping", expect_fail=True,
                  kwargs=dict(n=4, criterion="absolute", source="metric", twin=True),
                  inputs={**{"v%d" % i: ("real", -10, 10) for i in range(4)}, "tol": ("real", 0, 10), "patience": ("int", 1, 2)}))
    return S


def main(tier, seed):
    ex = e2.run_specs(PID, tier, specs(tier))
    return harness.run_check(PID, tier, [], META, seed=seed, extra=ex)
