"""C20 Model construction and reset honour their documented contracts."""
import numpy as np
from . import common as C
from vf import harness

PID = "C20"

META = dict(
    level="other",
    explanation="bounded SMT verification / symbolic execution: constructors (sizes and module=), reinitialize_parameters, the fit "
    "guards and one symbolic training step are executed with symbolic parameter values and a symbolic random tape (torch.randn "
    "returns fresh variables); equalities between networks' parameters, tape provenance of the weights, zero biases and the zero "
    "auxiliary bias of the phase network after a training step are identities over all values decided by z3; object identity, "
    "shapes, independence (write-through) and exceptions are executed facts",
    functions=["qucumber/nn_states/positive_wavefunction.py, complex_wavefunction.py, density_matrix.py: __init__, fit (guards)",
               "qucumber/nn_states/neural_state.py: reinitialize_parameters, fit", "qucumber/rbm/binary_rbm.py, purification_rbm.py: __init__, initialize_parameters"],
    bounds=dict(quick="three state types x {sizes given (num_hidden / num_aux defaulted or explicit, != num_visible), module given}; num_visible in {2,3}; constructors also with gpu=True; refusal of fit without bases fresh and with the stop flag set; two SGD epochs for the mixed state (1,1,1)",
                thorough="num_visible up to 4; training of (1,1,2) for two epochs and (1,2,1) for one epoch"),
    outside=["optimizers other than SGD (their update rule is torch's)", "GPU placement"],
    stubs=["torch.randn -> fresh symbolic tape variables", "torch.bernoulli / randperm / randint -> scripted", "torch -> vf.symtorch"],
)


def tape(B):
    """torch.randn returns fresh variables randn<k>[i,j] (symbolic) / values from theta (real)"""
    cnt = [0]
    log = []

    def fn(shape):
        cnt[0] += 1
        arr = B.params("randn%d" % cnt[0], tuple(shape))
        log.append(arr)
        return arr

    B.stub_randn(fn)
    return log


def entries(B, t):
    return B.scalars(t).reshape(-1)


def write_probe(B, G, tag, net_a, net_b):
    """writing into any parameter of net_a leaves every parameter of net_b unchanged (independent storage)"""
    torch = B.torch
    before = {k: B.scalars(v).copy() for k, v in net_b.named_parameters()}
    ok = True
    for k, p in net_a.named_parameters():
        flat = p.data.view(-1)
        for i in range(flat.numel()):
            old = flat[i].clone() if not B.symbolic else flat.a[i]
            flat[i] = 12345.0
            for k2, v2 in net_b.named_parameters():
                if not np.array_equal(B.scalars(v2), before[k2]):
                    ok = False
            flat[i] = old
    G.fact(tag, ok, "write-through between the two networks")


def construct(B, G, n, h, a):
    import qucumber.nn_states as nn
    from qucumber.rbm import BinaryRBM, PurificationRBM

    O = B.O
    torch = B.torch
    log = tape(B)
    rt = O.lit(float(np.sqrt(n)))
    # ---- sizes given ------------------------------------------------------------------------------------------------
    for kind in ("positive", "complex", "mixed"):
        # gpu=True is legal without CUDA (the library warns and stays on the CPU): same contract
        for (hh, aa, gpu) in ((None, None, False), (h, a, False), (h, None, False), (None, a, False), (h, a, True)):
            if kind != "mixed" and aa is not None and hh is None:
                continue
            if kind != "mixed" and aa is None and hh is not None:
                continue
            del log[:]
            import warnings

            with warnings.catch_warnings():
                warnings.simplefilter("ignore")
                if kind == "positive":
                    st = nn.PositiveWaveFunction(n, hh, gpu=gpu)
                elif kind == "complex":
                    st = nn.ComplexWaveFunction(n, hh, gpu=gpu)
                else:
                    st = nn.DensityMatrix(n, hh, aa, gpu=gpu)
            tag = "%s(%d,%s,%s%s)" % (kind, n, hh, aa, ",gpu=True" if gpu else "")
            eh, ea = (hh if hh else n), (aa if aa else n)
            nets = [getattr(st, x) for x in st.networks]
            G.fact(tag + ".sizes", st.num_visible == n and st.num_hidden == eh and (kind != "mixed" or st.num_aux == ea), "nv %s nh %s" % (st.num_visible, st.num_hidden))
            shapes_ok = True
            k = 0
            for net in nets:
                want = {"weights": (eh, n), "weights_W": (eh, n), "weights_U": (ea, n), "visible_bias": (n,), "hidden_bias": (eh,), "aux_bias": (ea,)}
                for name, p in net.named_parameters():
                    if tuple(p.shape) != want[name]:
                        shapes_ok = False
                    vals = entries(B, p)
                    if "bias" in name:
                        for i, v in enumerate(vals):
                            G.eq("%s.%s.%s[%d]==0" % (tag, "am" if net is nets[0] else "ph", name, i), v, O.frac(0))
                    else:
                        src = entries(B, B.tensor(log[k])) if k < len(log) else None
                        G.fact("%s.weights_from_tape[%d]" % (tag, k), src is not None and len(src) == len(vals), "randn draw %d" % k)
                        if src is not None and len(src) == len(vals):
                            for i in range(len(vals)):
                                G.eq("%s.w%d[%d]*sqrt(n)==randn" % (tag, k, i), vals[i] * rt, src[i])
                        k += 1
                G.fact("%s.num_pars[%s]" % (tag, "am" if net is nets[0] else "ph"), net.num_pars == sum(p.numel() for p in net.parameters()), net.num_pars)
            G.fact(tag + ".shapes", shapes_ok, "parameter shapes")
            if len(nets) == 2:
                G.fact(tag + ".distinct_networks", nets[0] is not nets[1], "rbm_am is not rbm_ph")
                write_probe(B, G, tag + ".independent(am->ph)", nets[0], nets[1])
                write_probe(B, G, tag + ".independent(ph->am)", nets[1], nets[0])
            # reinitialise: same shapes, fresh tape symbols, zero biases
            for i, net in enumerate(nets):  # a trained / hand-edited state: every parameter non-zero
                C.load_rbm(B, net, "%s.trained%d" % (tag, i))
            old = {(i, name): B.scalars(p).copy() for i, net in enumerate(nets) for name, p in net.named_parameters()}
            nlog = len(log)
            st.reinitialize_parameters()
            fresh_ok = len(log) > nlog
            for i, net in enumerate(nets):
                for name, p in net.named_parameters():
                    if tuple(p.shape) != tuple(old[(i, name)].shape):
                        fresh_ok = False
                    if "bias" in name:
                        for j, v in enumerate(entries(B, p)):
                            G.eq("%s.reinit.%d.%s[%d]==0" % (tag, i, name, j), v, O.frac(0))
            G.fact(tag + ".reinit.redraws_with_same_shapes", fresh_ok, "%d new randn draws" % (len(log) - nlog))
            if len(log) > nlog:
                w = entries(B, next(p for nm, p in nets[0].named_parameters() if "weights" in nm))
                src = entries(B, B.tensor(log[nlog]))
                G.eq(tag + ".reinit.weight_is_new_draw", w[0] * rt, src[0])
    # ---- an explicit size of zero is a size, not "use the default": a mixed state without purification units ------------------
    st0 = G.call("mixed(num_aux=0).constructible", lambda: nn.DensityMatrix(n, h, 0, gpu=False))
    if st0 is not None:
        G.fact("mixed(num_aux=0).sizes", st0.num_aux == 0 and st0.num_hidden == h and st0.num_visible == n, "num_aux %r" % (st0.num_aux,))
        for net in (st0.rbm_am, st0.rbm_ph):
            G.fact("mixed(num_aux=0).shapes[%s]" % ("am" if net is st0.rbm_am else "ph"),
                   tuple(net.weights_U.shape) == (0, n) and tuple(net.aux_bias.shape) == (0,) and tuple(net.weights_W.shape) == (h, n),
                   "weights_U %s aux_bias %s" % (tuple(net.weights_U.shape), tuple(net.aux_bias.shape)))
    # ---- module given -------------------------------------------------------------------------------------------------
    for kind in ("positive", "complex", "mixed"):
        mod = PurificationRBM(n, h, a, gpu=False) if kind == "mixed" else BinaryRBM(n, h, gpu=False)
        P = C.load_rbm(B, mod, "mod")
        tag = "%s(module)" % kind
        made = G.call(tag + ".constructible", lambda: {"positive": lambda: nn.PositiveWaveFunction(n + 1, module=mod, gpu=False),
                                                         "complex": lambda: nn.ComplexWaveFunction(n + 1, module=mod, gpu=False),
                                                         "mixed": lambda: nn.DensityMatrix(n + 1, module=mod, gpu=False)}[kind](), key="module= constructor")
        if made is None:
            continue
        st = made
        G.fact(tag + ".uses_the_module", st.rbm_am is mod, "rbm_am is module")
        G.fact(tag + ".sizes_from_module", st.num_visible == n and st.num_hidden == h and (kind != "mixed" or st.num_aux == a), "nv %s nh %s" % (st.num_visible, st.num_hidden))
        for name, p in st.rbm_am.named_parameters():
            for i, v in enumerate(entries(B, p)):
                G.eq("%s.am.%s[%d]" % (tag, name, i), v, np.asarray(P[name], dtype=object).reshape(-1)[i])
        if kind != "positive":
            G.fact(tag + ".phase_is_a_copy", st.rbm_ph is not mod and type(st.rbm_ph) is type(mod), "rbm_ph object")
            for name, p in st.rbm_ph.named_parameters():
                G.fact("%s.ph.%s.shape" % (tag, name), tuple(p.shape) == tuple(np.shape(P[name])), tuple(p.shape))
                for i, v in enumerate(entries(B, p)):
                    G.eq("%s.ph.%s[%d]" % (tag, name, i), v, np.asarray(P[name], dtype=object).reshape(-1)[i])
            write_probe(B, G, tag + ".independent(am->ph)", st.rbm_am, st.rbm_ph)
            write_probe(B, G, tag + ".independent(ph->am)", st.rbm_ph, st.rbm_am)
    # ---- fit without bases is refused before anything changes ------------------------------------------------------------
    for kind in ("complex", "mixed"):
        st, P = C.make_state(B, kind, 2, 2, 1)
        made = [0]

        class Opt:
            def __init__(self, params, lr=None, **kw):
                made[0] += 1

            def zero_grad(self):
                pass

            def step(self):
                made[0] += 1

        before = [B.scalars(p).copy() for net in st.networks for p in getattr(st, net).parameters()]
        # fresh state, and the same state with the stop flag still set by an earlier, early-stopped run
        for phase in ("fresh", "after_a_stopped_run"):
            if phase == "after_a_stopped_run":
                st.stop_training = True
            try:
                st.fit(C.rows_tensor(B, [[0, 1], [1, 1]]), epochs=1, pos_batch_size=1, optimizer=Opt)
                G.fact("%s.fit_without_bases_refused(%s)" % (kind, phase), False, "no exception")
            except ValueError:
                after = [B.scalars(p) for net in st.networks for p in getattr(st, net).parameters()]
                same = all(np.array_equal(x, y) for x, y in zip(before, after))
                G.fact("%s.fit_without_bases_refused(%s)" % (kind, phase), same and made[0] == 0, "parameters unchanged %s, optimizer activity %d" % (same, made[0]))
    G.twin("twin_weight_scale", entries(B, nn.PositiveWaveFunction(n, h, gpu=False).rbm_am.weights)[0], 2 * entries(B, B.tensor(log[-1]))[0])


def train_step(B, G, n, h, a, epochs=2):
    """after symbolic SGD steps the phase network's auxiliary bias is still exactly zero"""
    O = B.O
    st, P = C.make_state(B, "mixed", n, h, a)
    rows = C.space_rows(n)
    data = [rows[-1], rows[0], rows[1 % len(rows)]]
    bases = np.array([["Z"] * n, ["X"] + ["Z"] * (n - 1), ["Y"] * n])
    B.stub_randperm(lambda m: list(reversed(range(m))))
    B.stub_randint(lambda high, size: [0] * size[0])
    B.stub_bernoulli(lambda p: np.ones(np.shape(p)))
    lr = B.var("lr")
    st.fit(C.rows_tensor(B, data), epochs=epochs, pos_batch_size=2, neg_batch_size=1, k=1, lr=lr, input_bases=bases)
    for i, v in enumerate(B.scalars(st.rbm_ph.aux_bias).reshape(-1)):
        G.eq("phase_aux_bias[%d]==0_after_training" % i, v, O.frac(0))
    am0 = B.scalars(st.rbm_am.aux_bias).reshape(-1)[0]
    G.twin("twin_amplitude_aux_bias_moves", am0, P["am"]["aux_bias"][0])


def jobs(tier):
    J = [dict(name="construct-2-3-1", module="checks.c20", scenario="construct", kwargs=dict(n=2, h=3, a=1)),
         dict(name="construct-3-2-2", module="checks.c20", scenario="construct", kwargs=dict(n=3, h=2, a=2)),
         dict(name="train-111", module="checks.c20", scenario="train_step", kwargs=dict(n=1, h=1, a=1), opts=dict(env_range=0.6, var_ranges=[["lr", 0.05, 0.5]]))]
    if tier != "quick":
        J += [dict(name="construct-4-2-3", module="checks.c20", scenario="construct", kwargs=dict(n=4, h=2, a=3)),
              dict(name="construct-1-2-2", module="checks.c20", scenario="construct", kwargs=dict(n=1, h=2, a=2)),
              dict(name="train-112", module="checks.c20", scenario="train_step", kwargs=dict(n=1, h=1, a=2), opts=dict(env_range=0.6, var_ranges=[["lr", 0.05, 0.5]])),
              dict(name="train-121-one-epoch", module="checks.c20", scenario="train_step", kwargs=dict(n=1, h=2, a=1, epochs=1), opts=dict(env_range=0.6, var_ranges=[["lr", 0.05, 0.5]]))]
    return J


def main(tier, seed):
    return harness.run_check(PID, tier, jobs(tier), META, seed=seed)
