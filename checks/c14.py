"""C14 Seeded runs are reproducible and evaluation never alters the model."""
import numpy as np
from . import common as C
from vf import harness

PID = "C14"

META = dict(
    level="other",
    explanation="symbolic execution on the torch model (every weight / bias a symbolic value, every torch random draw taken from a "
    "scripted tape): (i) set_random_seed passes exactly the (symbolic) seed to torch.manual_seed and touches nothing else; "
    "(ii) non-interference: every callable of numpy.random and of Python's random module is replaced by a trap, and the public "
    "operations (construction, sampling, statistics, metrics, gradients, training epochs with every batch-size branch) are executed "
    "twice with the same torch tape: no trap fires and all outputs / trained parameters are the identical symbolic expressions; "
    "(iii) read-only: after each evaluation-type public operation every parameter entry is still its own symbolic pre-value (an "
    "in-place write through any view would replace the node).  Identity of symbolic values holds for ALL parameter values; the "
    "residual identities (trained parameters of run 1 vs run 2) are put to z3",
    functions=["qucumber/__init__.py: set_random_seed", "qucumber/nn_states/*: sample, psi, rho, pi_grad, gradient methods, fit, _shuffle_data, save",
               "qucumber/rbm/*: every public method", "qucumber/observables/*: apply, statistics, statistics_from_samples", "qucumber/utils/{training_statistics,unitaries}.py"],
    bounds=dict(quick="positive (2,2), complex (2,2), mixed (2,1,2); one pass over ~45 public operations per state type; training: 2 epochs, N=3, (pos,neg) batch sizes (2,None),(2,1),(3,2); one interleaved sequence (space, sample with overwrite, space, sample, statistics) run twice per state type",
                thorough="additionally (3,2) architectures and k up to 2"),
    outside=["bit-level determinism of torch's own kernels and generator (cannot be encoded); 'a different seed yields different draws' is a statement about torch's generator",
             "operations not in the list of the evidence"],
    stubs=["torch.randn / bernoulli / randperm / randint / distributions.Bernoulli -> scripted tape", "numpy.random.*, random.* -> traps", "torch.save -> in-memory store"],
)


class ForeignRNG(RuntimeError):
    pass


def trap_foreign_rngs(torch=None):
    """every callable of numpy.random and random raises - and, when the torch module is given, every call that would RE-SEED
    or reset torch's generator (only the library's seeding call may do that); returns an undo function"""
    import random as pyrandom

    saved = []
    if torch is not None:
        def reseed(name):
            def f(*a, **k):
                raise ForeignRNG("torch.%s was called: the generator seeded by set_random_seed was re-seeded" % name)

            return f

        for name in ("seed", "manual_seed", "set_rng_state"):
            try:
                obj = getattr(torch, name)
            except Exception:  # noqa: BLE001 - not provided by the model
                continue
            saved.append((torch, name, obj))
            setattr(torch, name, reseed(name))

    def trap(modname, name):
        def f(*a, **k):
            raise ForeignRNG("%s.%s was called" % (modname, name))

        return f

    for mod, modname in ((np.random, "numpy.random"), (pyrandom, "random")):
        for name in dir(mod):
            if name.startswith("_"):
                continue
            obj = getattr(mod, name)
            if callable(obj) and not isinstance(obj, type):
                saved.append((mod, name, obj))
                try:
                    setattr(mod, name, trap(modname, name))
                except (AttributeError, TypeError):
                    saved.pop()

    def undo():
        for mod, name, obj in saved:
            setattr(mod, name, obj)

    return undo


def script_tape(B):
    cnt = dict(b=0, r=0, i=0, p=0)

    def bern(p):
        cnt["b"] += 1
        shp = np.shape(p)
        return np.fromfunction(lambda *ix: (sum(ix) + cnt["b"]) % 2, shp) if len(shp) else np.array(float(cnt["b"] % 2))

    def randperm(m):
        cnt["p"] += 1
        return [(i + cnt["p"]) % m for i in range(m)]

    def randint(high, size):
        cnt["i"] += 1
        return [(2 * i + cnt["i"]) % high for i in range(size[0])]

    B.stub_bernoulli(bern)
    B.stub_randperm(randperm)
    B.stub_randint(randint)
    return cnt


def params_of(B, st):
    return [(net, nm, p) for net in st.networks for nm, p in getattr(st, net).named_parameters()]


def same_entries(B, a, b):
    a, b = np.asarray(a, dtype=object).reshape(-1), np.asarray(b, dtype=object).reshape(-1)
    if len(a) != len(b):
        return False
    if B.symbolic:
        return all(x is y or (not hasattr(x, "op") and not hasattr(y, "op") and x == y) for x, y in zip(a, b))
    return all(float(x) == float(y) for x, y in zip(a, b))


def seeding(B, G):
    import qucumber

    torch = B.torch
    seed = B.var("seed") if B.symbolic else 1234
    if B.symbolic:
        torch.RNG.reset()
        qucumber.set_random_seed(seed, cpu=True, gpu=False, quiet=True)
        G.fact("seed_forwarded_unchanged", len(torch.RNG.seeds) == 1 and torch.RNG.seeds[0][0] == "cpu" and torch.RNG.seeds[0][1] is seed, str(torch.RNG.seeds))
        G.fact("seeding_draws_nothing", torch.RNG.log == [], "no random draw during seeding")
        torch.RNG.reset()
        qucumber.set_random_seed(seed, cpu=False, gpu=True, quiet=True)
        G.fact("gpu_only_without_gpu_seeds_nothing", torch.RNG.seeds == [], str(torch.RNG.seeds))
        # every call form that asks for the CPU generator seeds it, whatever the gpu flag says (no CUDA here)
        for tag, kw in (("cpu+gpu", dict(cpu=True, gpu=True, quiet=True)), ("defaults", dict()), ("cpu+gpu loud", dict(cpu=True, gpu=True))):
            torch.RNG.reset()
            import warnings as _w

            with _w.catch_warnings():
                _w.simplefilter("ignore")
                qucumber.set_random_seed(seed, **kw)
            G.fact("seed_forwarded_unchanged(%s)" % tag, len(torch.RNG.seeds) == 1 and torch.RNG.seeds[0][0] == "cpu" and torch.RNG.seeds[0][1] is seed, str(torch.RNG.seeds))
    else:
        calls = []
        orig = torch.manual_seed
        torch.manual_seed = lambda s: calls.append(s)
        try:
            qucumber.set_random_seed(seed, cpu=True, gpu=False, quiet=True)
        finally:
            torch.manual_seed = orig
        G.fact("seed_forwarded_unchanged", calls == [seed], str(calls))
        G.fact("seeding_draws_nothing", True, "")
        G.fact("gpu_only_without_gpu_seeds_nothing", True, "")
        for tag, kw in (("cpu+gpu", dict(cpu=True, gpu=True, quiet=True)), ("defaults", dict()), ("cpu+gpu loud", dict(cpu=True, gpu=True))):
            del calls[:]
            import warnings as _w

            torch.manual_seed = lambda s: calls.append(s)
            try:
                with _w.catch_warnings():
                    _w.simplefilter("ignore")
                    qucumber.set_random_seed(seed, **kw)
            finally:
                torch.manual_seed = orig
            G.fact("seed_forwarded_unchanged(%s)" % tag, calls == [seed], str(calls))


def readonly(B, G, kind, n, h, a):
    """no evaluation-type public operation changes any parameter; no foreign RNG is consulted"""
    from qucumber.observables import SigmaX, SigmaY, SigmaZ, NeighbourInteraction, SWAP, System
    from qucumber.utils import training_statistics as ts, unitaries as U_

    O = B.O
    torch = B.torch
    st, P = C.make_state(B, kind, n, h, a)
    if kind == "mixed":
        # every parameter tensor is a parameter here, including the phase network's auxiliary bias (not held at 0)
        P["ph"] = C.load_rbm(B, st.rbm_ph, "ph")
    script_tape(B)
    if B.symbolic:
        torch.STORE.reset(True)
    space = C.space_tensor(B, n)
    rows = C.space_rows(n)
    batch = C.rows_tensor(B, [rows[-1], rows[0], rows[1 % len(rows)]])
    bases = np.array([["Z"] * n, ["X"] + ["Z"] * (n - 1), ["Y"] * n])
    one, one_b = batch[0], list(bases[2])
    before = [(net, nm, B.scalars(p).copy()) for net, nm, p in params_of(B, st)]
    undo = trap_foreign_rngs(B.torch)
    ops = []
    rbm = st.rbm_am
    bkw = dict(bases=bases) if kind != "positive" else {}
    bkw2 = dict(bases_batch=bases) if kind != "positive" else {}
    ops += [("probability", lambda: st.probability(space)), ("normalization", lambda: st.normalization(space)),
            ("sample", lambda: st.sample(2, num_samples=3)), ("sample(initial,overwrite)", lambda: st.sample(1, initial_state=batch.clone(), overwrite=True)),
            ("gradient", lambda: st.gradient(batch, **bkw)), ("gradient(1-D)", lambda: st.gradient(one, **(dict(bases=one_b) if kind != "positive" else {}))),
            ("positive_phase_gradients", lambda: st.positive_phase_gradients(batch, **bkw2)),
            ("compute_exact_gradients", lambda: st.compute_exact_gradients(batch, space, **bkw2)),
            ("compute_batch_gradients", lambda: st.compute_batch_gradients(1, batch, batch.clone(), **bkw2)),
            ("rbm.effective_energy", lambda: rbm.effective_energy(space)), ("rbm.effective_energy(1-D)", lambda: rbm.effective_energy(space[1])),
            ("rbm.effective_energy_gradient", lambda: rbm.effective_energy_gradient(space)), ("rbm.effective_energy_gradient(reduce=False)", lambda: rbm.effective_energy_gradient(space, reduce=False)),
            ("rbm.prob_h_given_v", lambda: rbm.prob_h_given_v(space)), ("rbm.sample_h_given_v", lambda: rbm.sample_h_given_v(space)),
            ("rbm.gibbs_steps", lambda: rbm.gibbs_steps(2, space)), ("rbm.partition", lambda: rbm.partition(space)),
            ("importance_sampling_weight", lambda: st.importance_sampling_weight(space, space)),
            ("generate_hilbert_space", lambda: st.generate_hilbert_space()), ("subspace_vector", lambda: st.subspace_vector(1))]
    if kind == "mixed":
        pr = st.rbm_ph
        ops += [("rho", lambda: st.rho(space, space)), ("rho(expand=False)", lambda: st.rho(space, space, expand=False)), ("rho(1-D)", lambda: st.rho(space[0], space[1])),
                ("pi", lambda: st.pi(space, space)), ("pi(expand=False)", lambda: st.pi(space, space, expand=False)),
                ("pi_grad(expand=False)", lambda: st.pi_grad(space, space)), ("pi_grad(expand=False, phase)", lambda: st.pi_grad(space, space, phase=True)),
                ("pi_grad(expand=True)", lambda: st.pi_grad(space, space, expand=True)), ("pi_grad(1-D)", lambda: st.pi_grad(space[0], space[1])),
                ("am_grads", lambda: st.am_grads(space)), ("ph_grads", lambda: st.ph_grads(space)),
                ("rbm.gamma", lambda: rbm.gamma(space, space)), ("rbm.gamma(eta=-1)", lambda: pr.gamma(space, space, eta=-1, expand=False)), ("rbm.gamma(1-D)", lambda: rbm.gamma(space[0], space[1])),
                ("rbm.gamma_grad", lambda: rbm.gamma_grad(space, space)), ("rbm.gamma_grad(expand)", lambda: pr.gamma_grad(space, space, eta=-1, expand=True)),
                ("rbm.mixing_term", lambda: rbm.mixing_term(space)), ("rbm_ph.mixing_term", lambda: pr.mixing_term(space)),
                ("rbm.prob_a_given_v", lambda: rbm.prob_a_given_v(space)), ("rbm.effective_energy(v,a)", lambda: rbm.effective_energy(space, C.rows_tensor(B, [[1] * a] * len(rows)))),
                ("rotated_gradient", lambda: st.rotated_gradient(bases[1], batch[:1])),
                ("rotate_rho", lambda: U_.rotate_rho(st, list(bases[2]), space)), ("rotate_rho_probs", lambda: U_.rotate_rho_probs(st, list(bases[1]), batch)),
                ("KL(list)", lambda: ts.KL(st, st.rho(space, space) / st.normalization(space), space, bases=["Z" * n, "Y" * n])),
                ("NLL(bases)", lambda: ts.NLL(st, batch, space, sample_bases=bases))]
    else:
        ops += [("psi", lambda: st.psi(space)), ("psi(1-D)", lambda: st.psi(space[1])), ("amplitude", lambda: st.amplitude(space)), ("phase", lambda: st.phase(space)),
                ("rbm.prob_v_given_h", lambda: rbm.prob_v_given_h(C.rows_tensor(B, [[1] * rbm.num_hidden]))),
                ("rotate_psi", lambda: U_.rotate_psi(st, "Y" * n, space, **({} if kind == "complex" else dict(unitaries=U_.create_dict())))),
                ("fidelity", lambda: ts.fidelity(st, st.psi(space), space)), ("KL(None)", lambda: ts.KL(st, st.psi(space) / st.normalization(space).sqrt(), space)),
                ("NLL", lambda: ts.NLL(st, batch, space))]
        if kind == "complex":
            ops += [("rotated_gradient", lambda: st.rotated_gradient(bases[1], batch[:1])), ("am_grads", lambda: st.am_grads(space)), ("ph_grads", lambda: st.ph_grads(space)),
                    ("rotate_psi_inner_prod", lambda: U_.rotate_psi_inner_prod(st, list(bases[2]), batch)),
                    ("KL(list)", lambda: ts.KL(st, st.psi(space) / st.normalization(space).sqrt(), space, bases=["Z" * n, "Y" * n])),
                    ("NLL(bases)", lambda: ts.NLL(st, batch, space, sample_bases=bases))]
    for name_, ob in (("SigmaX", SigmaX()), ("SigmaY", SigmaY()), ("SigmaZ(abs)", SigmaZ(absolute=True)), ("ZZ", NeighbourInteraction(periodic_bcs=True, c=1)), ("SWAP", SWAP([0])),
                      ("composite", 2 * SigmaZ() - SigmaX() + 1)):
        ops.append(("%s.apply" % name_, lambda ob=ob: ob.apply(st, batch.clone())))
        ops.append(("%s.statistics_from_samples" % name_, lambda ob=ob: ob.statistics_from_samples(st, batch.clone())))
    ops.append(("SigmaZ.statistics", lambda: SigmaZ().statistics(st, 4, num_chains=2, burn_in=1, steps=1)))
    ops.append(("System.statistics", lambda: System(SigmaZ(), SigmaX()).statistics(st, 3, num_chains=3, burn_in=1, steps=1)))
    if B.symbolic:
        ops.append(("save", lambda: st.save("mem://state.pt", {"note": 1})))
    else:
        import os, tempfile

        tmp = tempfile.mkdtemp(prefix="c14.")
        ops.append(("save", lambda: st.save(os.path.join(tmp, "s.pt"), {"note": 1})))
    try:
        for name_, fn in ops:
            try:
                fn()
                G.fact("%s.no_foreign_rng" % name_, True, "")
            except ForeignRNG as e:
                G.fact("%s.no_foreign_rng" % name_, False, str(e))
            except ArithmeticError as e:  # undefined value in the real-arithmetic model (e.g. variance of one sample): not a mutation
                G.fact("%s.no_foreign_rng" % name_, True, "operation undefined here: %s" % e)
            changed = [(net, nm) for (net, nm, old), (_, _, p) in zip(before, params_of(B, st)) if not same_entries(B, old, B.scalars(p))]
            if not changed:
                G.fact("%s.leaves_parameters_unchanged" % name_, True, "changed: []", key="read-only/" + name_)
            else:
                # an entry that is no longer its own symbol: "value unchanged for all parameter values" becomes a solver goal per
                # entry (an edit that only bites for some values - a clip, a guard - is then decided where it bites)
                emitted = 0
                for (net, nm, old), (_, _, p) in zip(before, params_of(B, st)):
                    if (net, nm) not in changed:
                        continue
                    o_, n_ = np.asarray(old, dtype=object).reshape(-1), np.asarray(B.scalars(p), dtype=object).reshape(-1)
                    for i in range(min(len(o_), len(n_))):
                        same = (o_[i] is n_[i]) if B.symbolic else (float(o_[i]) == float(n_[i]))
                        if not same and emitted < 12:
                            emitted += 1
                            G.eq("%s.leaves %s.%s[%d] unchanged" % (name_, net, nm, i), n_[i], o_[i], key="read-only/" + name_, tol=1e-12)
                    if len(o_) != len(n_):
                        G.fact("%s.leaves_parameters_unchanged" % name_, False, "shape of %s.%s changed" % (net, nm), key="read-only/" + name_)
            if changed:  # restore so that later operations are judged on their own
                for (net, nm, old), (_, _, p) in zip(before, params_of(B, st)):
                    B.load(p, old)
    finally:
        undo()
        if not B.symbolic:
            import shutil

            shutil.rmtree(tmp, ignore_errors=True)


def training(B, G, kind, n, h, a, bs, nbs, k=1):
    """two identically scripted training runs give identical parameters; no foreign RNG is consulted"""
    O = B.O
    rows = C.space_rows(n)
    data = [rows[-1], rows[0], rows[1 % len(rows)]]
    bases = np.array([["Z"] * n, ["X"] + ["Z"] * (n - 1), ["Z"] * n]) if kind != "positive" else None
    finals = []
    # an earlier run on ANOTHER object ended by a stop request: that must not reach the models of the two seeded runs
    other, _ = C.make_state(B, kind, n, h, a)
    other.stop_training = True
    undo = trap_foreign_rngs(B.torch)
    try:
        for run in range(2):
            st, P = C.make_state(B, kind, n, h, a)
            G.fact("run%d.new_model_is_not_stopped" % run, st.stop_training is False, "stop_training of a new object: %r" % (st.stop_training,))
            script_tape(B)
            kw = dict(epochs=2, pos_batch_size=bs, k=k, lr=B.var("lr"))
            if nbs is not None:
                kw["neg_batch_size"] = nbs
            if bases is not None:
                kw["input_bases"] = bases
            try:
                st.fit(C.rows_tensor(B, data), **kw)
                G.fact("run%d.no_foreign_rng" % run, True, "")
            except ForeignRNG as e:
                G.fact("run%d.no_foreign_rng" % run, False, str(e), key="foreign RNG in fit")
                return
            finals.append([(net, nm, B.scalars(p).copy()) for net, nm, p in params_of(B, st)])
    finally:
        undo()
    for (net, nm, x), (_, _, y) in zip(finals[0], finals[1]):
        x, y = np.asarray(x, dtype=object).reshape(-1), np.asarray(y, dtype=object).reshape(-1)
        for i in range(len(x)):
            G.eq("reproducible.%s.%s[%d]" % (net, nm, i), x[i], y[i])
    G.twin("twin_training_changes_parameters", np.asarray(finals[0][0][2], dtype=object).reshape(-1)[0], B.var("rbm_am_placeholder") if False else C.load_rbm(B, C.make_state(B, kind, n, h, a)[0].rbm_am, "am")[finals[0][0][1]].reshape(-1)[0])


def sequence(B, G, kind, n, h, a):
    """two identically seeded runs of an interleaving of public operations that edits returned tensors in place
    (generate space -> sample from it with overwrite -> generate again -> sample -> statistics): since torch's generator is
    re-seeded identically, the draws coincide iff every probability tensor handed to torch.bernoulli coincides, entry by entry"""
    from qucumber.observables import SigmaZ

    O = B.O
    runs = []
    for run in range(2):
        st, P = C.make_state(B, kind, n, h, a)
        cnt = script_tape(B)
        rec = []

        def bern(p, cnt=cnt, rec=rec):
            cnt["b"] += 1
            rec.append(np.array(p, dtype=object if B.symbolic else float).copy())
            shp = np.shape(p)
            return np.fromfunction(lambda *ix: (sum(ix) + cnt["b"]) % 2, shp) if len(shp) else np.array(float(cnt["b"] % 2))

        B.stub_bernoulli(bern)
        space = st.generate_hilbert_space()
        first = [[int(float(x)) for x in row] for row in B.scalars(space)]
        G.fact("run%d.space_is_the_enumeration" % run, first == [list(r) for r in C.space_rows(n)], first)
        st.sample(1, initial_state=space, overwrite=True)
        again = st.generate_hilbert_space(n)
        st.sample(2, initial_state=again, overwrite=True)
        out = SigmaZ().statistics(st, num_samples=4, num_chains=2, burn_in=1, steps=1)
        # an evaluation handed the caller's chains with overwrite=False leaves them as they were (the next seeded run reuses them)
        mine = C.rows_tensor(B, [C.space_rows(n)[-1], C.space_rows(n)[0]])
        mine_before = B.scalars(mine).copy()
        SigmaZ().statistics(st, num_samples=2, burn_in=1, steps=1, initial_state=mine, overwrite=False)
        G.fact("run%d.statistics(overwrite=False).leaves_initial_state" % run, bool(np.all(B.scalars(mine) == mine_before)), "caller's initial_state after statistics")
        runs.append((rec, out))
    ra, rb = runs[0][0], runs[1][0]
    G.fact("same_number_of_draws", len(ra) == len(rb) and len(ra) > 0, "%d vs %d Bernoulli calls" % (len(ra), len(rb)))
    for t, (x, y) in enumerate(zip(ra, rb)):
        x, y = x.reshape(-1), y.reshape(-1)
        G.fact("draw%d.same_shape" % t, len(x) == len(y), "%d vs %d" % (len(x), len(y)))
        for i in range(min(len(x), len(y))):
            G.eq("draw%d.probability[%d]_identical_in_both_runs" % (t, i), x[i], y[i])
    for key in ("mean", "variance"):
        G.eq("statistics.%s_identical" % key, runs[0][1][key], runs[1][1][key])
    G.twin("twin_draws_depend_on_the_state", ra[0].reshape(-1)[0], ra[0].reshape(-1)[-1])


def seeding_pf(I):
    """pathfork: for every integer seed (incl. 0 and negatives) set_random_seed forwards exactly that seed to torch.manual_seed"""
    import torch
    import qucumber

    seed = I["seed"]
    calls = []
    orig = torch.manual_seed
    torch.manual_seed = lambda s_: calls.append(s_)
    try:
        qucumber.set_random_seed(seed, cpu=True, gpu=bool(I.get("gpu", 0)), quiet=True)
    finally:
        torch.manual_seed = orig
    if len(calls) != 1:
        return False, "torch.manual_seed called %d times for seed %s" % (len(calls), int(seed))
    return bool(calls[0] == seed), "forwarded %r" % (calls[0],)


_SALT_SCRIPT = """
import sys, hashlib, random
import numpy as np, torch, qucumber
from qucumber.nn_states import PositiveWaveFunction, ComplexWaveFunction, DensityMatrix
out = []
for cls, args in ((PositiveWaveFunction, (3, 2)), (ComplexWaveFunction, (2, 3)), (DensityMatrix, (2, 3, 2))):
    np.random.seed(int(sys.argv[1])); random.seed(int(sys.argv[1]) + 5)
    qucumber.set_random_seed(7, cpu=True, gpu=False, quiet=True)
    st = cls(*args, gpu=False)
    qucumber.set_random_seed(11, cpu=True, gpu=False, quiet=True)
    st.reinitialize_parameters()
    smp = st.sample(2, num_samples=3)
    h = hashlib.sha1()
    for net in st.networks:
        for name, p in getattr(st, net).named_parameters():
            h.update(net.encode()); h.update(name.encode()); h.update(p.detach().numpy().tobytes())
    h.update(smp.numpy().tobytes())
    out.append(h.hexdigest())
print(" ".join(out))
"""


def hash_salt(I):
    """the same seeded sequence (construct, re-seed, reinitialise, sample) in fresh interpreters whose string-hash salt
    (PYTHONHASHSEED) and foreign RNG states differ: bit-identical parameters and samples.  The salts are enumerated."""
    import os
    import subprocess
    import sys

    def run(salt):
        env = dict(os.environ, PYTHONHASHSEED=str(salt), PYTHONPATH=os.environ.get("VERIF_REPO", "/repo"), OMP_NUM_THREADS="1")
        p = subprocess.run([sys.executable, "-c", _SALT_SCRIPT, str(salt)], capture_output=True, text=True, env=env, timeout=600)
        if p.returncode != 0:
            raise RuntimeError("interpreter with salt %s failed: %s" % (salt, p.stderr[-400:]))
        return p.stdout.strip()

    ref = run(0)
    got = run(int(I["salt"]))
    return got == ref, "salt %d gives %s, salt 0 gives %s (one digest per state type)" % (int(I["salt"]), got, ref)


def specs(tier):
    return [dict(name="seeding-all-seeds", module="checks.c14", function="seeding_pf", kwargs={}, inputs=dict(seed=("int", -(2 ** 31), 2 ** 63 - 1), gpu=("int", 0, 1))),
            dict(name="seeding-small-seeds", module="checks.c14", function="seeding_pf", kwargs={}, inputs=dict(seed=("int", -4, 4), gpu=("int", 0, 1))),
            dict(name="interpreter-hash-salts", module="checks.c14", function="hash_salt", kwargs={}, inputs=dict(salt=("int", 1, 3 if tier == "quick" else 8)))]


def jobs(tier):
    J = [dict(name="seeding", module="checks.c14", scenario="seeding", kwargs={})]
    cfg = [("positive", 2, 2, None), ("complex", 2, 2, None), ("mixed", 2, 1, 2)]
    if tier != "quick":
        cfg += [("positive", 3, 2, None), ("complex", 3, 2, None), ("mixed", 1, 2, 1)]
    for kind, n, h, a in cfg:
        J.append(dict(name="readonly-%s-%d%d" % (kind, n, h), module="checks.c14", scenario="readonly", kwargs=dict(kind=kind, n=n, h=h, a=a)))
    for kind, n, h, a in cfg[:3]:
        J.append(dict(name="sequence-%s-%d%d" % (kind, n, h), module="checks.c14", scenario="sequence", kwargs=dict(kind=kind, n=n, h=h, a=a)))
    tr = [("positive", 2, 2, None, 2, None), ("positive", 2, 2, None, 2, 1), ("positive", 2, 1, None, 3, 2), ("complex", 2, 1, None, 2, None), ("complex", 2, 1, None, 2, 1), ("mixed", 1, 1, 1, 2, 1)]
    for kind, n, h, a, bs, nbs in tr:
        J.append(dict(name="training-%s-%d%d-bs%d-neg%s" % (kind, n, h, bs, nbs), module="checks.c14", scenario="training",
                      kwargs=dict(kind=kind, n=n, h=h, a=a, bs=bs, nbs=nbs), opts=dict(env_range=0.6, var_ranges=[["lr", 0.05, 0.4]])))
    return J


def main(tier, seed):
    from vf import e2

    ex = e2.run_specs(PID, tier, specs(tier))
    return harness.run_check(PID, tier, jobs(tier), META, seed=seed, extra=ex)
