"""C12 Training follows the documented event protocol and honours stop requests (pathfork over the real fit)."""
import contextlib
import io
import numpy as np
from vf import harness, e2

PID = "C12"

META = dict(
    level="model_checking",
    explanation="path-by-path symbolic execution (pathfork: z3 decides the feasibility of every branch on the symbolic "
    "starting epoch, last epoch and stop point; every feasible path runs the REAL NeuralStateBase.fit / CallbackList / "
    "LambdaCallback / Timer with the numerics stubbed) - the recorded event trace is compared with a reference generator "
    "of the documented protocol on every path",
    functions=["qucumber/nn_states/neural_state.py: NeuralStateBase.fit, stop_training (property + setter)",
               "qucumber/nn_states/{positive_wavefunction,complex_wavefunction,density_matrix}.py: fit (argument forwarding)",
               "qucumber/callbacks/callback_list.py: CallbackList", "qucumber/callbacks/lambda_callback.py: LambdaCallback",
               "qucumber/callbacks/callback.py: CallbackBase", "qucumber/callbacks/timer.py: Timer"],
    bounds=dict(quick="starting_epoch, epochs in 0..3 (incl. empty ranges); 1, 2 or 3 batches per epoch; stop injected at every event index -1..(all); 1-2 callbacks in both orders; Timer on/off; bare state + positive/complex/mixed fit overrides; negative batch size larger than the positive one",
                thorough="starting_epoch, epochs in 0..4; up to 4 batches; three callbacks"),
    outside=["numerics of the batch update (stubbed: compute_batch_gradients returns zeros, recording optimizer)", "progress bar rendering (tqdm rebound to identity)"],
    stubs=["compute_batch_gradients -> zero gradients", "optimizer -> recording optimizer bumping a version counter", "tqdm -> identity"],
)

_DATA = {1: [[0.0, 1.0], [1.0, 1.0]], 2: [[0.0, 1.0], [1.0, 1.0], [1.0, 0.0]], 3: [[0.0, 1.0], [1.0, 1.0], [1.0, 0.0], [0.0, 0.0], [1.0, 1.0]],
         4: [[0.0, 1.0], [1.0, 1.0], [1.0, 0.0], [0.0, 0.0], [1.0, 1.0], [0.0, 1.0], [0.0, 0.0]]}
_BASES = [["Z", "Z"], ["X", "Z"], ["Z", "Z"], ["Z", "Y"], ["Z", "Z"], ["X", "Y"], ["Z", "Z"]]


def reference(start, epochs, nb, stop_ev, ncb):
    """event stream of the documented protocol; stop_ev indexes the emitted events (all callbacks), -1 = never"""
    ev = []
    state = dict(n=0, stopped=False)

    def emit(*e):
        for c in range(ncb):
            ev.append((c,) + e)
            if state["n"] == stop_ev:
                state["stopped"] = True
            state["n"] += 1

    emit("train_start")
    ep = start
    while ep <= epochs:
        emit("epoch_start", ep)
        b = 0
        while b < nb:
            emit("batch_start", ep, b)
            emit("batch_end", ep, b)
            b += 1
            if state["stopped"]:
                break
        emit("epoch_end", ep)
        if state["stopped"]:
            break
        ep += 1
    emit("train_end")
    return ev, state["stopped"]


def _state(kind):
    import torch
    import qucumber.nn_states.neural_state as ns
    from qucumber.nn_states import PositiveWaveFunction, ComplexWaveFunction, DensityMatrix

    ns.tqdm = lambda it, **kw: it
    if kind == "bare":

        class Bare(ns.NeuralStateBase):
            networks = []
            rbm_am = None
            device = torch.device("cpu")

            def __getattr__(self, a):
                raise AttributeError(a)

            def compute_batch_gradients(self, k, *batch):
                return []

            def importance_sampling_numerator(self, vp, v):
                pass

            def importance_sampling_denominator(self, v):
                pass

            @staticmethod
            def autoload(location, gpu=False):
                pass

        return Bare()
    st = {"positive": lambda: PositiveWaveFunction(2, 2, gpu=False), "complex": lambda: ComplexWaveFunction(2, 2, gpu=False),
          "mixed": lambda: DensityMatrix(2, 2, 2, gpu=False)}[kind]()
    nets = list(st.networks)
    st.compute_batch_gradients = lambda k, *batch, **kw: [torch.zeros(getattr(st, n).num_pars, dtype=torch.double) for n in nets]
    return st


def protocol(I, kind="bare", nb=2, ncb=1, style="lambda", timer=False, order=0, twin=False, neg=None):
    import torch
    from qucumber.callbacks import LambdaCallback, CallbackBase

    start, epochs, stop_ev = I["start"], I["epochs"], I["stop_ev"]
    st = _state(kind)
    ver = [0]
    trace, vers = [], []
    cnt = [0]

    class Opt:
        def __init__(self, params, lr=None, **kw):
            pass

        def zero_grad(self):
            pass

        def step(self):
            ver[0] += 1

    def rec(c, *e):
        trace.append((c,) + e)
        vers.append(ver[0])
        if cnt[0] == stop_ev:
            st.stop_training = True
        cnt[0] += 1

    def make(c):
        if style == "lambda":
            return LambdaCallback(
                on_train_start=lambda s: rec(c, "train_start"), on_train_end=lambda s: rec(c, "train_end"),
                on_epoch_start=lambda s, ep: rec(c, "epoch_start", ep), on_epoch_end=lambda s, ep: rec(c, "epoch_end", ep),
                on_batch_start=lambda s, ep, b: rec(c, "batch_start", ep, b), on_batch_end=lambda s, ep, b: rec(c, "batch_end", ep, b))

        class Rec(CallbackBase):
            def on_train_start(self, s):
                rec(c, "train_start")

            def on_train_end(self, s):
                rec(c, "train_end")

            def on_epoch_start(self, s, ep):
                rec(c, "epoch_start", ep)

            def on_epoch_end(self, s, ep):
                rec(c, "epoch_end", ep)

            def on_batch_start(self, s, ep, b):
                rec(c, "batch_start", ep, b)

            def on_batch_end(self, s, ep, b):
                rec(c, "batch_end", ep, b)

        return Rec()

    cbs = [make(c) for c in range(ncb)]
    data = torch.tensor(_DATA[nb], dtype=torch.double)
    kw = dict(epochs=epochs, pos_batch_size=2, k=1, starting_epoch=start, callbacks=cbs, optimizer=Opt, time=timer)
    if kind in ("complex", "mixed"):
        kw["input_bases"] = np.array(_BASES[: len(_DATA[nb])])
    if neg is not None:
        kw["neg_batch_size"] = neg  # the number of batch pairs per epoch is ceil(N / pos_batch_size), whatever the negative batch size
    with contextlib.redirect_stdout(io.StringIO()):
        st.fit(data, **kw)
    s0, e0, k0 = int(start), int(epochs), int(stop_ev)
    want, stopped = reference(s0, e0, nb + (1 if twin else 0), k0, ncb)
    if trace != want:
        return False, "trace differs from the protocol: got %s... want %s..." % (trace[:12], want[:12])
    if bool(st.stop_training) != stopped:
        return False, "stop_training is %r after the run, expected %r" % (st.stop_training, stopped)
    # parameters change only between a batch-start and its batch-end, exactly once per batch
    v = 0
    for (e, ver_) in zip(trace, vers):
        if e[1] == "batch_end" and e[0] == 0:
            v += 1
        if ver_ != v:
            return False, "optimizer steps (%d) out of place at event %s (expected %d)" % (ver_, e, v)
    return True, ""


def prestopped(I, kind="bare"):
    """a run started with a stop already requested emits nothing and changes nothing; non-boolean stop values are refused"""
    import torch
    from qucumber.callbacks import LambdaCallback

    st = _state(kind)
    trace = []
    steps = [0]

    class Opt:
        def __init__(self, params, lr=None, **kw):
            steps[0] += 1000

        def zero_grad(self):
            pass

        def step(self):
            steps[0] += 1

    cb = LambdaCallback(on_train_start=lambda s: trace.append("ts"), on_train_end=lambda s: trace.append("te"),
                        on_epoch_start=lambda s, ep: trace.append("es"), on_epoch_end=lambda s, ep: trace.append("ee"),
                        on_batch_start=lambda s, ep, b: trace.append("bs"), on_batch_end=lambda s, ep, b: trace.append("be"))
    st.stop_training = True
    kw = dict(epochs=I["epochs"], pos_batch_size=2, starting_epoch=I["start"], callbacks=[cb], optimizer=Opt)
    if kind in ("complex", "mixed"):
        kw["input_bases"] = np.array(_BASES[:3])
    st.fit(torch.tensor(_DATA[2], dtype=torch.double), **kw)
    if trace or steps[0] or st.stop_training is not True:
        return False, "pre-stopped run emitted %s, optimizer activity %d" % (trace, steps[0])
    try:
        st.stop_training = 3
        return False, "stop_training = 3 was accepted"
    except ValueError:
        pass
    return st.stop_training is True, "stop_training after a rejected assignment"


def specs(tier):
    S = []
    hi = 3 if tier == "quick" else 4

    def add(name, fn, nev, **kw):
        S.append(dict(name=name, module="checks.c12", function=fn, kwargs=kw,
                      inputs=dict(start=("int", 0, hi), epochs=("int", 0, hi), stop_ev=("int", -1, nev))))

    def nev(nb, ncb):
        return ncb * (2 + (hi + 1) * (2 + 2 * nb))

    for nb in (1, 2, 3) + ((4,) if tier != "quick" else ()):
        add("bare-nb%d" % nb, "protocol", nev(nb, 1), kind="bare", nb=nb, ncb=1)
    add("bare-2cb-lambda", "protocol", nev(2, 2), kind="bare", nb=2, ncb=2)
    add("bare-2cb-class", "protocol", nev(2, 2), kind="bare", nb=2, ncb=2, style="class")
    add("bare-timer", "protocol", nev(2, 1), kind="bare", nb=2, ncb=1, timer=True)
    for kind in ("positive", "complex", "mixed"):
        add("%s-nb2" % kind, "protocol", nev(2, 1), kind=kind, nb=2, ncb=1)
        S.append(dict(name="%s-prestopped" % kind, module="checks.c12", function="prestopped", kwargs=dict(kind=kind),
                      inputs=dict(start=("int", 0, 2), epochs=("int", 0, 2))))
    for kind in ("positive", "complex", "mixed"):
        S.append(dict(name="%s-nb2-larger-negative-batches" % kind, module="checks.c12", function="protocol", kwargs=dict(kind=kind, nb=2, ncb=1, neg=5),
                      inputs=dict(start=("int", 0, 2), epochs=("int", 0, 2), stop_ev=("int", -1, 2 + 3 * 6))))
    S.append(dict(name="bare-prestopped", module="checks.c12", function="prestopped", kwargs=dict(kind="bare"),
                  inputs=dict(start=("int", 0, 2), epochs=("int", 0, 2))))
    S.append(dict(name="twin-wrong-batch-count", module="checks.c12", function="protocol", kwargs=dict(kind="bare", nb=1, ncb=1, twin=True), expect_fail=True,
                  inputs=dict(start=("int", 0, 1), epochs=("int", 0, 1), stop_ev=("int", -1, 3))))
    if tier != "quick":
        add("bare-3cb", "protocol", nev(3, 3), kind="bare", nb=3, ncb=3)
        add("complex-nb3-timer", "protocol", nev(3, 1), kind="complex", nb=3, ncb=1, timer=True)
    return S


def main(tier, seed):
    ex = e2.run_specs(PID, tier, specs(tier))
    return harness.run_check(PID, tier, [], META, seed=seed, extra=ex)
