"""C09 The swap estimator measures the purity of the reduced state."""
import itertools
import numpy as np
from . import common as C
from vf import harness

PID = "C09"

META = dict(
    level="other",
    explanation="bounded SMT verification: SWAP(A).apply / swap are executed symbolically on two-row batches covering all ordered "
    "pairs of basis states; the exactly weighted average sum_{s1,s2} p(s1) p(s2) SWAP_A(s1,s2) is compared with Tr(rho_A^2) obtained "
    "by an explicit partial trace in the harness (both times Z^2), as an identity over ALL real parameter values decided by z3 on "
    "the normal-form residual; entropy sign via a sum-of-squares certificate checked as an identity",
    functions=[
        "qucumber/observables/entanglement.py: swap, SWAP.apply",
        "qucumber/nn_states/neural_state.py: importance_sampling_weight",
        "qucumber/nn_states/wavefunction.py / density_matrix.py: importance_sampling_numerator, importance_sampling_denominator, psi, rho(expand=False)",
        "qucumber/utils/cplx.py: elementwise_division, elementwise_mult, real",
    ],
    bounds=dict(quick="positive (2,2); complex (2,2), complex (3,1) on 4 regions; mixed (1,1,1),(2,1,1); all 2^n regions where not stated (int / list / ndarray / tensor forms), all ordered pairs of basis states; cyclic pairing in batches of 3, 4 and 5 rows",
                thorough="additionally positive (3,2), positive (4,2) on 6 regions; complex (3,2) all regions, complex (4,1) on 3 regions; mixed (2,2,2),(3,1,1)"),
    outside=["num_visible > 4", "statistical independence of the two replicas inside one sampled batch", "strict positivity of the purity for mixed states (only >= 0 is shown)", "floating point"],
    stubs=["torch -> vf.symtorch"],
    assumptions=["pure states: the pair weights are |psi(s)|^2 taken from psi(); the same scenario proves |psi(s)|^2 == probability(s)"],
)


def region_forms(B, A, n):
    forms = [("list", list(A))]
    if len(A) == 1:
        forms.append(("int", A[0]))
    if len(A) >= 1:
        forms.append(("ndarray", np.array(A, dtype=np.int64)))
        forms.append(("tensor", B.torch.tensor(list(A), dtype=B.torch.long)))
    return forms


def scenario(B, G, kind, n, h, a=None, regions=None):
    from qucumber.observables import SWAP

    O = B.O
    st, P = C.make_state(B, kind, n, h, a)
    rows = C.space_rows(n)
    D = len(rows)
    space = C.space_tensor(B, n)
    prob = B.scalars(st.probability(space))
    Z = B.scalars(st.normalization(space)).reshape(-1)[0]
    if kind == "mixed":
        r_ = B.scalars(st.rho(space, space))
        rho = [[O.cplx(r_[0, i, j], r_[1, i, j]) for j in range(D)] for i in range(D)]
        w = [prob[i] for i in range(D)]
    else:
        ps = B.scalars(st.psi(space))
        psi = [O.cplx(ps[0, i], ps[1, i]) for i in range(D)]
        rho = [[psi[i] * O.conj(psi[j]) for j in range(D)] for i in range(D)]
        w = [ps[0, i] * ps[0, i] + ps[1, i] * ps[1, i] for i in range(D)]
        for i in range(D):
            G.eq("born[%d]" % i, w[i], prob[i])
    all_regions = [list(c) for k in range(n + 1) for c in itertools.combinations(range(n), k)]
    if regions is not None:
        all_regions = [r for r in all_regions if r in regions]
    sums = {}
    for A in all_regions:
        comp = [i for i in range(n) if i not in A]
        # reference: Tr(rho_A^2) by explicit partial trace over the complement
        def idx(abits, bbits):
            bits = [0] * n
            for s_, v_ in zip(A, abits):
                bits[s_] = v_
            for s_, v_ in zip(comp, bbits):
                bits[s_] = v_
            return int("".join(map(str, bits)), 2)

        ca = list(itertools.product((0, 1), repeat=len(A)))
        cb = list(itertools.product((0, 1), repeat=len(comp)))
        rA = {}
        for x in ca:
            for y in ca:
                acc = O.cplx(O.frac(0))
                for b in cb:
                    acc = acc + rho[idx(x, b)][idx(y, b)]
                rA[(x, y)] = acc
        purity = O.cplx(O.frac(0))
        for x in ca:
            for y in ca:
                purity = purity + rA[(x, y)] * rA[(y, x)]
        for fname, form in region_forms(B, A, n):
            tag = "A=%s/%s" % ("".join(map(str, A)) or "empty", fname)
            ob = SWAP(form)
            tot = O.frac(0)
            first = fname == "list"
            for i in range(D):
                for j in range(i, D):
                    if not first and (i + j) % 3:  # other argument forms: a third of the batches
                        continue
                    batch = C.rows_tensor(B, [rows[i], rows[j]])
                    before = B.scalars(batch).copy()
                    val = B.scalars(ob.apply(st, batch))
                    if first and i == 0 and j == D - 1:
                        G.fact("%s.shape" % tag, tuple(val.shape) == (2,), val.shape)
                        G.fact("%s.batch_unchanged" % tag, bool(np.all(B.scalars(batch) == before)), "batch after apply")
                    if first:
                        tot = tot + w[i] * w[j] * val[0]
                        if j != i:
                            tot = tot + w[j] * w[i] * val[1]
                    else:
                        ref = B.scalars(SWAP(list(A)).apply(st, C.rows_tensor(B, [rows[i], rows[j]])))
                        G.eq("%s.same_as_list[%d,%d]" % (tag, i, j), val[0], ref[0])
                        G.eq("%s.same_as_list'[%d,%d]" % (tag, i, j), val[1], ref[1])
            if first:
                G.eq("%s.average_is_purity" % tag, tot, O.re(purity), tol=1e-9)  # sums of products of doubles: the replay is exact to ~1e-13
                G.eq("%s.purity_is_real" % tag, O.im(purity), O.frac(0))
                sums[tuple(A)] = tot
        if kind != "mixed":
            # Renyi-2 entropy >= 0  <=>  Tr rho_A^2 <= Z^2 : certificate  Z^2 - Tr rho_A^2 == 1/2 sum |psi(ab)psi(a'b') - psi(a'b)psi(ab')|^2
            sos = O.frac(0)
            for x in ca:
                for y in ca:
                    for b in cb:
                        for b2 in cb:
                            t = psi[idx(x, b)] * psi[idx(y, b2)] - psi[idx(y, b)] * psi[idx(x, b2)]
                            sos = sos + O.abs2(t)
            G.eq("A=%s.entropy_certificate" % "".join(map(str, A)), Z * Z - O.re(purity), O.frac(1, 2) * sos)
    ys = B.params("y", (4,))
    G.nonneg("sum_of_squares_nonneg", ys[0] * ys[0] + ys[1] * ys[1] + ys[2] * ys[2] + ys[3] * ys[3])
    if kind != "mixed":
        for A in all_regions:
            comp = tuple(i for i in range(n) if i not in A)
            if tuple(A) < comp and comp in sums:
                G.eq("complement_symmetry[%s]" % "".join(map(str, A)), sums[tuple(A)], sums[comp])
        if () in sums:
            G.eq("empty_region_is_Z^2", sums[()], Z * Z)
        if tuple(range(n)) in sums:
            G.eq("full_region_is_Z^2", sums[tuple(range(n))], Z * Z)
    # pairing rule inside a batch: row i is paired with row i-1 (cyclically)
    A0 = [0]
    three = [rows[1 % D], rows[D - 1], rows[2 % D]]
    v3 = B.scalars(SWAP(A0).apply(st, C.rows_tensor(B, three)))
    for i in range(3):
        two = B.scalars(SWAP(A0).apply(st, C.rows_tensor(B, [three[i], three[i - 1]])))
        G.eq("cyclic_pairing[%d]" % i, v3[i], two[0])
    # ... for longer batches too (a neighbour, not the row half a batch away)
    for blen in (4, 5):
        many = [rows[(3 * i + 1) % D] for i in range(blen)]
        vm = B.scalars(SWAP(A0).apply(st, C.rows_tensor(B, many)))
        G.fact("cyclic_pairing.batch%d.shape" % blen, tuple(np.shape(vm)) == (blen,), np.shape(vm))
        for i in range(blen):
            two = B.scalars(SWAP(A0).apply(st, C.rows_tensor(B, [many[i], many[i - 1]])))
            G.eq("cyclic_pairing.batch%d[%d]" % (blen, i), vm[i], two[0])
    if D > 2:
        two = B.scalars(SWAP(A0).apply(st, C.rows_tensor(B, [three[0], three[1]])))
        G.twin("twin_pairing_with_next", v3[0], two[0])
    G.twin("twin_purity_unweighted", sums[tuple(all_regions[-1])], O.re(purity) + Z)


def jobs(tier):
    cfg = [("positive", 2, 2, None, None), ("complex", 2, 2, None, None), ("complex", 3, 1, None, [[], [0], [1, 2], [0, 2]]), ("mixed", 2, 1, 1, None), ("mixed", 1, 1, 1, None)]
    if tier != "quick":
        cfg += [("positive", 3, 2, None, None), ("positive", 4, 2, None, [[], [0], [1, 3], [0, 1, 2], [0, 1, 2, 3], [2]]), ("complex", 3, 2, None, None),
                ("complex", 4, 1, None, [[0], [1, 2], [0, 3]]), ("mixed", 2, 2, 2, None), ("mixed", 3, 1, 1, None), ("complex", 1, 1, None, None)]
    return [dict(name="%s-%d-%d-%s" % (k, n, h, a), module="checks.c09", scenario="scenario", kwargs=dict(kind=k, n=n, h=h, a=a, regions=r), opts=dict(timeout_ms=120000)) for k, n, h, a, r in cfg]


def main(tier, seed):
    return harness.run_check(PID, tier, jobs(tier), META, seed=seed)
