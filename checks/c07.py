"""C07 Every epoch uses every training sample once, paired with its own basis (symbolic permutation + z3)."""
import math
import time
import numpy as np
from . import common as C
from vf import harness
from vf import solve as _solve

PID = "C07"

META = dict(
    level="other",
    explanation="bounded SMT verification with a SYMBOLIC shuffle: the real fit / _shuffle_data / extract_refbasis_samples run with "
    "torch.randperm returning a vector of z3 integer variables constrained to be a permutation and torch.randint a vector of "
    "z3 integers in range; data rows carry tags, gathers become if-then-else chains; ONE z3 query per epoch decides, over all "
    "N! permutations and all negative-batch draws at once, that every positive batch pairs each sample with its own basis row, "
    "that the batches partition the data, and that negative rows come from the allowed rows; batch sizes / counts and the "
    "caller's data are checked on the executed run",
    functions=["qucumber/nn_states/neural_state.py: NeuralStateBase.fit, _shuffle_data", "qucumber/utils/data.py: extract_refbasis_samples",
               "qucumber/nn_states/{positive,complex}_wavefunction.py, density_matrix.py: fit overrides"],
    bounds=dict(quick="N in 1..5, pos_batch_size in {1,2,3,4,6} (N < batch, N = m*batch, N = m*batch + r), neg_batch_size defaulted / smaller / larger, with bases (complex, mixed) and without (positive), 2 epochs, data as tensor / ndarray / list; a second fit of the same model with other data and the same bases object; real compute_batch_gradients for two configurations (chains per batch)",
                thorough="N up to 7, 3 epochs"),
    outside=["N > 7", "uniformity of the shuffle (only that it is a permutation of the rows)", "the gradient computation itself (compute_batch_gradients is a recording stub)"],
    stubs=["torch.randperm -> symbolic permutation (z3 Ints, Distinct)", "torch.randint -> symbolic draws in range", "compute_batch_gradients -> recorder"],
    assumptions=["without bases and with equal batch sizes the negative batches reuse the positive permutation, so the last negative batch is as short as the last positive one: accepted (the property speaks of neg_batch_size rows 'started from the training data')"],
)

_LETTERS2 = [("X", "Z"), ("Y", "X"), ("Z", "Y"), ("X", "Y"), ("X", "X"), ("Y", "Z"), ("Z", "X"), ("Y", "Y")]  # partly rotated rows first: they are not reference-basis rows


class Sel:
    """if-then-else chain: value of vals[p] for a symbolic index p"""

    def __init__(self, p, vals):
        self.p, self.vals = p, tuple(vals)

    def z(self):
        import z3

        vs = [v.z() if isinstance(v, Sel) else z3.IntVal(int(v)) for v in self.vals]
        e = vs[-1]
        for i in range(len(vs) - 2, -1, -1):
            e = z3.If(self.p == i, vs[i], e)
        return e


class SymIndex:
    def __init__(self, ps):
        self.ps = list(ps)

    def __len__(self):
        return len(self.ps)

    def to(self, *a, **k):
        return self


def _patch_symbolic(torch):
    if getattr(torch.Tensor, "_c07_patched", False):
        return
    orig = torch.Tensor.__getitem__

    def getitem(self, idx):
        if isinstance(idx, SymIndex):
            rows = []
            for p in idx.ps:
                row = np.empty(self.a.shape[1:], dtype=object)
                for j in np.ndindex(*row.shape):
                    row[j] = Sel(p, [self.a[(i,) + j] for i in range(self.a.shape[0])])
                rows.append(row)
            arr = np.stack(rows) if rows else np.empty((0,) + self.a.shape[1:], dtype=object)
            return torch.Tensor(_raw=arr, dtype=self.dtype)
        return orig(self, idx)

    torch.Tensor.__getitem__ = getitem
    torch.Tensor._c07_patched = True


class TagArray(np.ndarray):
    """bases array whose row gather accepts a symbolic index; the gathered rows carry the tag of their source row"""

    def __getitem__(self, idx):
        if isinstance(idx, SymIndex):
            out = np.empty((len(idx),) + self.shape[1:], dtype=object)
            for k, p in enumerate(idx.ps):
                for j in range(self.shape[1]):
                    out[k, j] = Sel(p, list(range(self.shape[0])))
            return out
        return np.ndarray.__getitem__(self, idx)


def batching(B, G, kind, N, bs, nbs, epochs=2, form="tensor"):
    import z3
    import qucumber.nn_states as nn

    torch = B.torch
    st = {"positive": lambda: nn.PositiveWaveFunction(2, 2, gpu=False), "complex": lambda: nn.ComplexWaveFunction(2, 2, gpu=False),
          "mixed": lambda: nn.DensityMatrix(2, 1, 1, gpu=False)}[kind]()
    with_bases = kind != "positive"
    rows = [[float(i), float(100 + i)] for i in range(N)]
    letters = [("Z", "Z") if (i % 2 == 0) else _LETTERS2[(i // 2) % len(_LETTERS2)] for i in range(N)]
    zrows = [i for i in range(N) if letters[i] == ("Z", "Z")]
    if form == "tensor":
        data = B.tensor(np.array(rows, dtype=object if B.symbolic else float))
    elif form == "ndarray":
        data = np.array(rows, dtype=float)
    else:
        data = [list(r) for r in rows]
    data_before = [list(r) for r in rows]
    bases = np.array([list(l) for l in letters]) if with_bases else None
    bases_before = None if bases is None else bases.copy()
    if B.symbolic and with_bases:
        bases = bases.view(TagArray)
    cons = []
    draws = []  # (kind, vars) in call order
    counter = [0]
    if B.symbolic:
        _patch_symbolic(torch)

        def randperm(n):
            counter[0] += 1
            ps = [z3.Int("perm%d_%d" % (counter[0], k)) for k in range(n)]
            cons.extend([z3.And(p >= 0, p < n) for p in ps])
            if n > 1:
                cons.append(z3.Distinct(*ps))
            draws.append(("perm", ps))
            return SymIndex(ps)

        def randint(high, size):
            counter[0] += 1
            ps = [z3.Int("draw%d_%d" % (counter[0], k)) for k in range(size[0])]
            cons.extend([z3.And(p >= 0, p < high) for p in ps])
            draws.append(("draw", ps))
            return SymIndex(ps)

        torch.RNG.randperm_fn = randperm
        torch.RNG.randint_fn = randint
    else:
        def randperm(n):
            counter[0] += 1
            vals = [int(round(B.var("perm%d_%d" % (counter[0], k)))) for k in range(n)]
            if sorted(vals) != list(range(n)):  # parameters not taken from a solver model: use a fixed derangement
                vals = [(k * 2 + 1) % n for k in range(n)] if n % 2 == 1 else list(reversed(range(n)))
                if sorted(vals) != list(range(n)):
                    vals = list(reversed(range(n)))
            return vals

        def randint(high, size):
            counter[0] += 1
            return [min(max(int(round(B.var("draw%d_%d" % (counter[0], k)))), 0), high - 1) for k in range(size[0])]

        B.stub_randperm(randperm)
        B.stub_randint(randint)
    batches = []
    nets = list(st.networks)

    def recorder(k, samples, neg, bases_batch=None, *a, **kw):
        batches.append((samples, neg, bases_batch))
        return [torch.zeros(getattr(st, n).num_pars, dtype=torch.double) for n in nets]

    st.compute_batch_gradients = recorder
    ep_marks = []
    from qucumber.callbacks import LambdaCallback

    cb = LambdaCallback(on_epoch_start=lambda s, ep: ep_marks.append(len(batches)))
    kw = dict(epochs=epochs, pos_batch_size=bs, callbacks=[cb])
    if nbs is not None:
        kw["neg_batch_size"] = nbs
    if with_bases:
        kw["input_bases"] = bases

    class Opt:
        def __init__(self, params, lr=None, **k2):
            pass

        def zero_grad(self):
            pass

        def step(self):
            pass

    kw["optimizer"] = Opt
    st.fit(data, **kw)
    ep_marks.append(len(batches))
    nb_expected = math.ceil(N / bs)
    eff_nbs = nbs if nbs else bs
    sizes_expected = [bs] * (N // bs) + ([N % bs] if N % bs else [])
    # caller's data untouched
    if form == "tensor":
        now = B.scalars(data)
        same = all(float(now[i][j]) == data_before[i][j] for i in range(N) for j in range(2))
    elif form == "ndarray":
        same = bool((data == np.array(data_before)).all())
    else:
        same = data == data_before
    G.fact("caller_data_unchanged", same, "data after fit")
    if with_bases:
        G.fact("caller_bases_unchanged", bool((np.asarray(bases).astype(str) == bases_before).all()), "bases after fit")

    def tagz(x):
        if isinstance(x, Sel):
            return x.z()
        try:
            return z3.IntVal(int(x))
        except (TypeError, ValueError):
            return z3.IntVal(-999)  # not one of the harness's row tags at all (e.g. a row of the caller's original array)

    for e in range(epochs):
        eb = batches[ep_marks[e]:ep_marks[e + 1]]
        sizes = [int(b[0].shape[0]) for b in eb]
        G.fact("epoch%d.batch_count" % e, len(eb) == nb_expected, "%d batches, expected ceil(%d/%d)=%d" % (len(eb), N, bs, nb_expected))
        G.fact("epoch%d.batch_sizes" % e, sizes == sizes_expected, "%s vs %s" % (sizes, sizes_expected))
        nsizes = [int(b[1].shape[0]) for b in eb]
        reuse = (not with_bases) and eff_nbs == bs
        G.fact("epoch%d.neg_batch_sizes" % e, nsizes == ([eff_nbs] * len(eb) if not reuse else sizes_expected[: len(eb)]), "%s (neg_batch_size %d)" % (nsizes, eff_nbs))
        if with_bases:
            G.fact("epoch%d.bases_batch_sizes" % e, [len(b[2]) for b in eb] == sizes, "bases rows per batch")
        if B.symbolic:
            viol = []
            pos_tags = []
            for (smp, neg, bb) in eb:
                sa = smp.a
                for r in range(sa.shape[0]):
                    t0 = tagz(sa[r, 0])
                    viol.append(tagz(sa[r, 1]) != t0 + 100)  # both columns of a row come from the same source row
                    if with_bases and r >= len(bb):
                        viol.append(z3.BoolVal(True))  # a sample row without any basis row (reported by the size facts too)
                    elif with_bases:
                        viol.append(tagz(bb[r, 0]) != t0)
                        viol.append(tagz(bb[r, 1]) != t0)
                    pos_tags.append(t0)
                na = neg.a
                for r in range(na.shape[0]):
                    t = tagz(na[r, 0])
                    allowed = zrows if with_bases else list(range(N))
                    viol.append(z3.Not(z3.Or([t == i for i in allowed])))
                    viol.append(tagz(na[r, 1]) != t + 100)
            for i in range(N):
                viol.append(z3.Sum([z3.If(t == i, 1, 0) for t in pos_tags]) != 1)
            s = z3.Solver()
            s.set("timeout", 120000)
            s.add(*cons)
            s.add(z3.Or(viol))
            t1 = time.time()
            res = _solve._chk(s)
            cex = None
            if res == "sat":
                m = s.model()
                cex = {}
                for kind_, ps in draws:
                    for p in ps:
                        cex[str(p)] = float(m.eval(p, model_completion=True).as_long())
            G.solver_goal("epoch%d.pairing_partition_negsource" % e, res, time.time() - t1, cex=cex,
                          detail="%d positive rows, %d negative rows, %d index variables" % (len(pos_tags), sum(nsizes), sum(len(p) for _, p in draws)))
        else:
            ok = True
            detail = ""
            seen = []
            for (smp, neg, bb) in eb:
                sa = B.scalars(smp)
                for r in range(sa.shape[0]):
                    t = int(round(float(sa[r, 0])))
                    seen.append(t)
                    if int(round(float(sa[r, 1]))) != t + 100:
                        ok, detail = False, "row mixes two source rows"
                    if with_bases and r >= len(bb):
                        ok, detail = False, "sample row %d has no basis row in its batch" % t
                    elif with_bases and tuple(bb[r]) != letters[t]:
                        ok, detail = False, "sample row %d paired with basis %s, its own is %s" % (t, tuple(bb[r]), letters[t])
                na = B.scalars(neg)
                for r in range(na.shape[0]):
                    t = int(round(float(na[r, 0])))
                    if t not in (zrows if with_bases else range(N)):
                        ok, detail = False, "negative-phase row %d is not an allowed start row" % t
            if sorted(seen) != list(range(N)):
                ok, detail = False, "positive batches cover rows %s" % sorted(seen)
            G.fact("epoch%d.pairing_partition_negsource" % e, ok, detail)
    if with_bases:
        # history: a second fit of the SAME model with the SAME bases object but OTHER data: its negative-phase chains start from the
        # reference-basis rows of the data given now, and its rows are paired with their own bases
        off = 200
        rows2 = [[float(off + i), float(off + 100 + i)] for i in range(N)]
        if form == "tensor":
            data2 = B.tensor(np.array(rows2, dtype=object if B.symbolic else float))
        elif form == "ndarray":
            data2 = np.array(rows2, dtype=float)
        else:
            data2 = [list(r) for r in rows2]
        nb0 = len(batches)
        st.fit(data2, **dict(kw, epochs=1))
        eb = batches[nb0:]
        G.fact("second_fit.batch_count", len(eb) == nb_expected, "%d batches" % len(eb))
        if B.symbolic:
            viol = []
            for (smp, neg, bb) in eb:
                na = neg.a
                for r in range(na.shape[0]):
                    t = tagz(na[r, 0])
                    viol.append(z3.Not(z3.Or([t == i + off for i in zrows])) if zrows else z3.BoolVal(True))
                sa = smp.a
                for r in range(sa.shape[0]):
                    if r < len(bb):
                        viol.append(tagz(bb[r, 0]) != tagz(sa[r, 0]) - off)
            s = z3.Solver()
            s.set("timeout", 120000)
            s.add(*cons)
            s.add(z3.Or(viol) if viol else z3.BoolVal(False))
            t1 = time.time()
            res = _solve._chk(s)
            cex = None
            if res == "sat":
                m = s.model()
                cex = {str(p): float(m.eval(p, model_completion=True).as_long()) for _, ps in draws for p in ps}
            G.solver_goal("second_fit.pairing_negsource", res, time.time() - t1, cex=cex, detail="second fit on the same model")
        else:
            ok, detail = True, ""
            for (smp, neg, bb) in eb:
                na = B.scalars(neg)
                for r in range(na.shape[0]):
                    t = int(round(float(na[r, 0])))
                    if t - off not in zrows:
                        ok, detail = False, "second fit: negative-phase row %d is not a reference-basis row of the data given to THIS fit" % t
                sa = B.scalars(smp)
                for r in range(sa.shape[0]):
                    t = int(round(float(sa[r, 0]))) - off
                    if r < len(bb) and (t < 0 or t >= N or tuple(bb[r]) != letters[t]):
                        ok, detail = False, "second fit: row %d paired with basis %s" % (t, tuple(bb[r]))
            G.fact("second_fit.pairing_negsource", ok, detail)
    if B.symbolic:
        # vacuity twin: the constraints on the index variables are satisfiable, and a wrong claim (row 0 is always first) is refuted
        s = z3.Solver()
        s.add(*cons)
        first = draws[0][1][0] if draws else None
        if first is not None and N > 1:
            s.add(first != 0)
            res = _solve._chk(s)
            cex = None
            if res == "sat":
                m = s.model()
                cex = {str(p): float(m.eval(p, model_completion=True).as_long()) for _, ps in draws for p in ps}
            G.solver_goal("twin_first_row_is_row0", res, 0.0, cex=cex, twin=True)
    elif N > 1:
        sa = B.scalars(batches[0][0]) if batches else None
        G.twin("twin_first_row_is_row0", float(sa[0, 0]) if sa is not None and sa.shape[0] else 0.0, 0.0)


def jobs(tier):
    J = []
    # how many chains a batch really starts is decided inside compute_batch_gradients (replaced by a recorder in `batching`): the
    # update-rule scenario of C06 runs the real one and counts the scripted Gibbs draws per batch
    d3 = [[0, 1], [1, 1], [1, 0]]
    for nm, kw_ in (("chains-per-batch-positive-bs1-neg3", dict(kind="positive", n=2, h=2, a=None, data=d3, bases=None, bs=1, nbs=3, k=1)),
                    ("chains-per-batch-complex-bs2-negdefault", dict(kind="complex", n=2, h=1, a=None, data=d3, bases=["ZZ", "XZ", "ZZ"], bs=2, nbs=None, k=1))):
        J.append(dict(name=nm, module="checks.c06", scenario="cd_step", kwargs=kw_, opts=dict(env_range=0.75, var_ranges=[["lr", 0.05, 0.5]], timeout_ms=120000)))
    Ns = range(1, 6) if tier == "quick" else range(1, 8)
    k = 0
    for N in Ns:
        for bs in (1, 2, 3, 4, 6):
            if bs > N + 2:
                continue
            for nbs in (None, 1, 3):
                for kind in ("complex", "positive", "mixed"):
                    k += 1
                    if tier == "quick" and (k % 3) and not (kind == "complex" and (nbs is None or (N + bs) % 2 == 0)) \
                            and not (nbs is None and (N + bs) % 3 == 0) and not (kind == "positive" and nbs == 3 and N == 4):
                        continue  # (every state type keeps jobs with the negative batch size defaulted and with it given)
                    if kind == "mixed" and (N + bs) % 2:
                        continue
                    form = ("tensor", "ndarray", "list")[(k + k // 3) % 3]
                    J.append(dict(name="%s-N%d-bs%d-neg%s-%s" % (kind, N, bs, nbs, form), module="checks.c07", scenario="batching",
                                  kwargs=dict(kind=kind, N=N, bs=bs, nbs=nbs, epochs=2 if tier == "quick" else 3, form=form)))
    return J


def main(tier, seed):
    return harness.run_check(PID, tier, jobs(tier), META, seed=seed)
