"""C16 Composite observables evaluate to the same arithmetic on their parts (one inductive step per operator)."""
import itertools
import numpy as np
from vf import harness

PID = "C16"

META = dict(
    level="other",
    explanation="bounded SMT verification by structural induction, one solver-checked step per constructor: the children of every "
    "operator node are stub observables whose apply returns an ARBITRARY symbolic vector (fresh real variables per sample), standing "
    "for any sub-expression; for each overload (-a, a+b, a-b, a*s, s+a, s-a, s*a) x operand kind the node built by the real "
    "operator is executed and node.apply(samples) == op(value(a), value(b)) is an identity over all real child values decided by z3; "
    "statistics_from_samples of the node equals mean / unbiased variance / standard error / count of the combined vector; because "
    "SumObservable / ProdObservable consult their children only through apply and isinstance, the step for arbitrary children gives "
    "every depth; trees up to depth 3 are additionally compared with an interpreter",
    functions=["qucumber/observables/observable.py: ObservableBase.__neg__/__add__/__sub__/__mul__/__radd__/__rsub__/__rmul__, SumObservable, ProdObservable, statistics_from_samples"],
    bounds=dict(quick="7 overloads x {observable, int, float, numpy.float64, bool, 0, negative} operands; batch of 3 samples; all trees of depth <= 2 and 60 trees of depth 3 over 2 leaves and 4 scalars; shared sub-expressions (DAGs), re-evaluation after the children changed, look-alike leaves, negative-scalar products under negation, scalar x (sum with scalar); composites of SigmaZ / NeighbourInteraction on a concrete batch",
                thorough="batch of 5 samples, 960 random trees of depth 2..6"),
    outside=["scalar operands are concrete values of each accepted Python kind (a Python float cannot be symbolic); the observable operands are fully symbolic", "leaf observables other than through their apply values (C08/C09)"],
    stubs=["leaf observables -> stubs returning symbolic per-sample values", "torch -> vf.symtorch"],
)

SCALARS = [("int", 3), ("float", -2.5), ("np.float64", np.float64(1.5)), ("bool", True), ("zero", 0), ("negint", -4), ("zerofloat", 0.0),
           ("bigint", 16777217), ("tenth", 0.1)]  # the last two are not representable in single precision


def leaf_class():
    from qucumber.observables import ObservableBase

    class Leaf(ObservableBase):
        def __init__(self, B, tag, nsamp):
            self.name = tag
            self.symbol = tag
            self.vals = B.params(tag, (nsamp,))
            self.B = B

        def apply(self, nn_state, samples):
            return self.B.tensor(self.vals)

    return Leaf


def num(x):
    return float(x) if not isinstance(x, (bool, np.bool_)) else float(int(x))


def lift_scalar(O, x):
    if isinstance(x, (bool, np.bool_)):
        return O.frac(int(x))
    if isinstance(x, int):
        return O.frac(x)
    return O.lit(float(x))


def step(B, G, nsamp=3):
    """one inductive step per operator and operand kind"""
    O = B.O
    Leaf = leaf_class()
    a, b = Leaf(B, "a", nsamp), Leaf(B, "b", nsamp)
    samples = B.tensor(np.zeros((nsamp, 2), dtype=object if B.symbolic else float))
    va, vb = a.vals, b.vals

    def check(tag, node, ref):
        out = B.scalars(node.apply(None, samples))
        G.fact(tag + ".shape", tuple(np.shape(out)) == (nsamp,), np.shape(out))
        for i in range(nsamp):
            G.eq("%s[%d]" % (tag, i), out[i], ref[i], tol=1e-13)  # pure arithmetic: the replay can be (almost) exact
        st = node.statistics_from_samples(None, samples)
        mean = sum(ref[1:], ref[0]) * O.frac(1, nsamp)
        var = sum(((r - mean) * (r - mean) for r in ref[1:]), (ref[0] - mean) * (ref[0] - mean)) * O.frac(1, nsamp - 1)
        G.eq(tag + ".stats.mean", st["mean"], mean)
        G.eq(tag + ".stats.variance", st["variance"], var)
        G.eq(tag + ".stats.std_error^2", st["std_error"] ** 2, var * O.frac(1, nsamp))
        G.nonneg(tag + ".stats.std_error>=0", st["std_error"])
        G.fact(tag + ".stats.count", st["num_samples"] == nsamp, st["num_samples"])

    check("neg", -a, [-x for x in va])
    check("obs+obs", a + b, [x + y for x, y in zip(va, vb)])
    check("obs-obs", a - b, [x - y for x, y in zip(va, vb)])
    for kind, sv in SCALARS:
        s = lift_scalar(O, sv)
        check("obs+%s" % kind, a + sv, [x + s for x in va])
        check("obs-%s" % kind, a - sv, [x - s for x in va])
        check("obs*%s" % kind, a * sv, [x * s for x in va])
        check("%s+obs" % kind, sv + a, [s + x for x in va])
        check("%s-obs" % kind, sv - a, [s - x for x in va])
        check("%s*obs" % kind, sv * a, [s * x for x in va])
    # rejections at construction time
    def rejects(tag, fn, exc):
        try:
            fn()
        except exc:
            G.fact(tag, True, "raised " + exc.__name__)
            return
        except Exception as e:  # noqa: BLE001
            G.fact(tag, False, "raised %s instead of %s" % (type(e).__name__, exc.__name__))
            return
        G.fact(tag, False, "accepted (expected %s)" % exc.__name__)

    rejects("obs*obs rejected", lambda: a * b, ValueError)
    for tag, bad in (("str", "2"), ("None", None), ("list", [1.0]), ("complex", 1j), ("bytes", b"3")):
        rejects("obs*%s rejected" % tag, lambda bad=bad: a * bad, TypeError)
        rejects("%s*obs rejected" % tag, lambda bad=bad: bad * a, TypeError)
        rejects("obs+%s rejected" % tag, lambda bad=bad: a + bad, TypeError)
        rejects("%s+obs rejected" % tag, lambda bad=bad: bad + a, TypeError)
        rejects("%s-obs rejected" % tag, lambda bad=bad: bad - a, TypeError)
    # history: the SAME composite objects evaluated again on the SAME samples tensor after it was advanced in place (what
    # statistics() does with its chains): the values follow the children's current values, nothing is remembered
    nodes = [("neg", -a, lambda x, y: -x), ("obs*3", a * 3, lambda x, y: x * 3), ("obs-obs", a - b, lambda x, y: x - y),
             ("2-obs", 2 - a, lambda x, y: 2 - x), ("obs+obs", a + b, lambda x, y: x + y), ("(obs-obs)*0.5", (a - b) * 0.5, lambda x, y: (x - y) * O.frac(1, 2))]
    for tag, node, f in nodes:
        node.apply(None, samples)
    a.vals, b.vals = B.params("a_later", (nsamp,)), B.params("b_later", (nsamp,))
    samples.add_(1)
    for tag, node, f in nodes:
        out = B.scalars(node.apply(None, samples))
        for i in range(nsamp):
            G.eq("re-evaluated %s[%d]" % (tag, i), out[i], f(a.vals[i], b.vals[i]), tol=1e-13)
    m3, s25 = O.frac(-3), O.lit(-2.5)
    for tag, node, ref in (("-(a*-3)", -(a * -3), [-(x * m3) for x in a.vals]), ("-(-2.5*a)", -(-2.5 * a), [-(s25 * x) for x in a.vals]),
                           ("b-(a*-2.5)", b - (a * -2.5), [y - x * s25 for x, y in zip(a.vals, b.vals)]), ("1-(-3*a)", 1 - (-3 * a), [1 - m3 * x for x in a.vals]),
                           ("2*(a+1)", 2 * (a + 1), [2 * (x + 1) for x in a.vals]), ("(b-3)*0.5", (b - 3) * 0.5, [(y - 3) * O.frac(1, 2) for y in b.vals]),
                           ("0*(a+5)", 0 * (a + 5), [O.frac(0) * x for x in a.vals]), ("3*((a+b)+1)", 3 * ((a + b) + 1), [3 * (x + y + 1) for x, y in zip(a.vals, b.vals)]),
                           ("(1.5-a)*4", (1.5 - a) * 4, [(O.lit(1.5) - x) * 4 for x in a.vals])):
        out = B.scalars(node.apply(None, samples))
        for i in range(nsamp):
            G.eq("%s[%d]" % (tag, i), out[i], ref[i], tol=1e-13)
    # sharing: one sum object used as the left / right operand of several larger expressions keeps its own value, and each
    # larger expression has exactly its own terms (expression DAGs, not only trees)
    s_ = a + 1.5
    p_ = s_ + b
    q_ = s_ - b
    r_ = b - s_
    t_ = (s_ + b) + s_
    sv = [x + O.lit(1.5) for x in a.vals]
    for tag, node, ref in (("shared(a+1.5)", s_, sv), ("shared+b", p_, [x + y for x, y in zip(sv, b.vals)]), ("shared-b", q_, [x - y for x, y in zip(sv, b.vals)]),
                           ("b-shared", r_, [y - x for x, y in zip(sv, b.vals)]), ("(shared+b)+shared", t_, [x + y + x for x, y in zip(sv, b.vals)]),
                           ("shared(a+1.5) again", s_, sv)):
        out = B.scalars(node.apply(None, samples))
        G.fact("%s.shape" % tag, tuple(np.shape(out)) == (nsamp,), np.shape(out))
        for i in range(nsamp):
            G.eq("%s[%d]" % (tag, i), out[i], ref[i], tol=1e-13)
    # two DIFFERENT observables that print alike (same name / symbol, e.g. SigmaZ() and SigmaZ(absolute=True), two SWAPs of
    # different regions): a sum of them is the sum of their values, not twice the first
    tw = Leaf(B, "a_twin", nsamp)
    tw.name, tw.symbol = a.name, a.symbol
    for tag, node, ref in (("a+lookalike", a + tw, [x + y for x, y in zip(a.vals, tw.vals)]), ("lookalike+a", tw + a, [x + y for x, y in zip(a.vals, tw.vals)]),
                           ("2a+2lookalike", 2 * a + 2 * tw, [2 * x + 2 * y for x, y in zip(a.vals, tw.vals)]),
                           ("(a+1)+(lookalike+1)", (a + 1) + (tw + 1), [x + y + 2 for x, y in zip(a.vals, tw.vals)])):
        out = B.scalars(node.apply(None, samples))
        for i in range(nsamp):
            G.eq("%s[%d]" % (tag, i), out[i], ref[i], tol=1e-13)
    G.twin("twin_rsub", B.scalars((2 - a).apply(None, samples))[0], a.vals[0] - 2)


def library_leaves(B, G):
    """composites of the library's own observables (SigmaZ, NeighbourInteraction open / periodic) on a concrete batch: every operand
    is evaluated on the SAME sample tensor, so the value of the composite is the arithmetic on the values each part gives alone on
    a private copy - in either operand order - and the batch is left as it was"""
    from qucumber.observables import SigmaZ, NeighbourInteraction

    O = B.O
    rows = [[0, 1, 1], [1, 0, 1], [1, 1, 0], [0, 0, 1], [1, 1, 1]]
    samples = C_rows(B, rows)
    Z, NI, NP = SigmaZ(), NeighbourInteraction(), NeighbourInteraction(periodic_bcs=True, c=2)
    alone = {k: [x for x in B.scalars(ob.apply(None, C_rows(B, rows)))] for k, ob in (("Z", Z), ("NI", NI), ("NP", NP))}
    cases = [("NI+Z", NI + Z, lambda i: alone["NI"][i] + alone["Z"][i]), ("Z+NI", Z + NI, lambda i: alone["Z"][i] + alone["NI"][i]),
             ("NI-Z", NI - Z, lambda i: alone["NI"][i] - alone["Z"][i]), ("2*NI-NP", 2 * NI - NP, lambda i: 2 * alone["NI"][i] - alone["NP"][i]),
             ("-NI-3*Z+1", -NI - 3 * Z + 1, lambda i: -alone["NI"][i] - 3 * alone["Z"][i] + 1), ("NP+NI+Z", NP + NI + Z, lambda i: alone["NP"][i] + alone["NI"][i] + alone["Z"][i])]
    before = B.scalars(samples).copy()
    for tag, node, ref in cases:
        out = B.scalars(node.apply(None, samples))
        G.fact("%s.shape" % tag, tuple(np.shape(out)) == (len(rows),), np.shape(out))
        for i in range(len(rows)):
            G.eq("%s[%d]" % (tag, i), out[i], ref(i), tol=1e-13)
        G.fact("%s.batch_unchanged" % tag, bool(np.all(B.scalars(samples) == before)), "sample tensor after evaluating the composite")
    # statistics of a composite over a LARGE batch (4100 rows, not a multiple of any power of two): plain mean / unbiased variance
    big = [[(i >> j) & 1 for j in range(3)] for i in range(4100)]
    bz = [x for x in B.scalars(Z.apply(None, C_rows(B, big)))]
    bn = [x for x in B.scalars(NI.apply(None, C_rows(B, big)))]
    vals_big = [x + y for x, y in zip(bz, bn)]
    stb = (Z + NI).statistics_from_samples(None, C_rows(B, big))
    mean_b = sum(vals_big[1:], vals_big[0]) * O.frac(1, len(big))
    var_b = sum(((v - mean_b) * (v - mean_b) for v in vals_big[1:]), (vals_big[0] - mean_b) * (vals_big[0] - mean_b)) * O.frac(1, len(big) - 1)
    G.eq("large_batch.mean", stb["mean"], mean_b)
    G.eq("large_batch.variance", stb["variance"], var_b)
    G.fact("large_batch.count", stb["num_samples"] == len(big), stb["num_samples"])
    G.twin("twin_library_leaves", B.scalars((NI + Z).apply(None, C_rows(B, rows)))[0], alone["Z"][0] + alone["NI"][0] + 1)


def C_rows(B, rows):
    from checks import common as C

    return C.rows_tensor(B, rows)


def trees(B, G, depth=3, count=60, nsamp=2, seed=0):
    """cross-check of the induction: random expression trees vs an interpreter over the leaf values"""
    import random

    O = B.O
    rnd = random.Random(seed)
    Leaf = leaf_class()
    leaves = [Leaf(B, "x", nsamp), Leaf(B, "y", nsamp)]
    samples = B.tensor(np.zeros((nsamp, 2), dtype=object if B.symbolic else float))
    scal = [2, -1.5, np.float64(0.5), 0, -3]

    def gen(d):
        """returns (observable, reference values)"""
        if d == 0 or rnd.random() < 0.15:
            l = rnd.choice(leaves)
            return l, list(l.vals)
        op = rnd.choice(["neg", "add", "sub", "mul", "radd", "rsub", "rmul", "adds", "subs"])
        x, vx = gen(d - 1)
        if op == "neg":
            return -x, [-v for v in vx]
        if op == "add":
            y, vy = gen(d - 1)
            return x + y, [p + q for p, q in zip(vx, vy)]
        if op == "sub":
            y, vy = gen(d - 1)
            return x - y, [p - q for p, q in zip(vx, vy)]
        sv = rnd.choice(scal)
        s = lift_scalar(O, sv)
        if op == "mul":
            return x * sv, [v * s for v in vx]
        if op == "rmul":
            return sv * x, [s * v for v in vx]
        if op == "radd":
            return sv + x, [s + v for v in vx]
        if op == "rsub":
            return sv - x, [s - v for v in vx]
        if op == "adds":
            return x + sv, [v + s for v in vx]
        return x - sv, [v - s for v in vx]

    for t in range(count):
        node, ref = gen(depth)
        out = B.scalars(node.apply(None, samples))
        for i in range(nsamp):
            G.eq("tree%d[%d]" % (t, i), out[i], ref[i], tol=1e-13)
    G.twin("twin_tree", B.scalars((leaves[0] - 2 * leaves[1]).apply(None, samples))[0], leaves[0].vals[0] + 2 * leaves[1].vals[0])


def jobs(tier):
    J = [dict(name="step", module="checks.c16", scenario="step", kwargs=dict(nsamp=3 if tier == "quick" else 5)),
         dict(name="library-leaves", module="checks.c16", scenario="library_leaves", kwargs={})]
    n = 3 if tier == "quick" else 16
    for k in range(n):
        depth = 2 + (k % 2) if tier == "quick" else 2 + (k % 5)  # thorough: depths 2..6
        J.append(dict(name="trees-%d" % k, module="checks.c16", scenario="trees", kwargs=dict(depth=depth, count=20 if tier == "quick" else 60, seed=k)))
    return J


def main(tier, seed):
    return harness.run_check(PID, tier, jobs(tier), META, seed=seed)
