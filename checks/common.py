"""Shared scenario helpers: model construction with symbolic / concrete parameters and the short
reference models (oracles) written from the definitions, generic over the backend's ops."""
import itertools
import numpy as np


def bits(k, n):
    """big-endian bits of k: site 0 = most significant (the convention of property C19)"""
    return tuple((k >> (n - 1 - j)) & 1 for j in range(n))


def space_rows(n):
    return [bits(k, n) for k in range(2 ** n)]


def load_rbm(B, rbm, tag, zero=()):
    """give every parameter of the module its own variable; returns name -> array of scalars"""
    P = {}
    for name, p in rbm.named_parameters():
        shape = tuple(p.shape)
        if name in zero:
            arr = np.zeros(shape, dtype=object if B.symbolic else float)
            if B.symbolic:
                from fractions import Fraction

                arr[...] = Fraction(0)
        else:
            arr = B.params("%s.%s" % (tag, name), shape)
        B.load(p, arr)
        P[name] = arr
    return P


def make_state(B, kind, n, h=None, a=None):
    import qucumber.nn_states as nn

    if kind == "positive":
        st = nn.PositiveWaveFunction(n, h, gpu=False)
        P = {"am": load_rbm(B, st.rbm_am, "am")}
    elif kind == "complex":
        st = nn.ComplexWaveFunction(n, h, gpu=False)
        P = {"am": load_rbm(B, st.rbm_am, "am"), "ph": load_rbm(B, st.rbm_ph, "ph")}
    elif kind == "mixed":
        st = nn.DensityMatrix(n, h, a, gpu=False)
        # the phase network's auxiliary bias is held at its documented value 0
        P = {"am": load_rbm(B, st.rbm_am, "am"), "ph": load_rbm(B, st.rbm_ph, "ph", zero=("aux_bias",))}
    elif kind == "complex-module":
        # built from a user-supplied RBM: rbm_am is that module, rbm_ph an independent copy of it
        from qucumber.rbm import BinaryRBM

        st = nn.ComplexWaveFunction(n + 1, module=BinaryRBM(n, h, gpu=False), gpu=False)
        P = {"am": load_rbm(B, st.rbm_am, "am"), "ph": load_rbm(B, st.rbm_ph, "ph")}
    elif kind == "mixed-module":
        from qucumber.rbm import PurificationRBM

        st = nn.DensityMatrix(n + 1, module=PurificationRBM(n, h, a, gpu=False), gpu=False)
        P = {"am": load_rbm(B, st.rbm_am, "am"), "ph": load_rbm(B, st.rbm_ph, "ph", zero=("aux_bias",))}
    else:
        raise ValueError(kind)
    return st, P


def space_tensor(B, n):
    return B.tensor(np.array(space_rows(n), dtype=object if B.symbolic else float).reshape(2 ** n, n))


def rows_tensor(B, rows):
    rows = [list(r) for r in rows]
    return B.tensor(np.array(rows, dtype=object if B.symbolic else float).reshape(len(rows), len(rows[0]) if rows else 0))


# ---- reference models (BinaryRBM) ---------------------------------------------------------------
def lin(O, w, x, b=None):
    """b + sum_j w_j x_j  with x concrete 0/1 (skips zero terms so the DAG stays small)"""
    t = O.frac(0) if b is None else b
    for wj, xj in zip(w, x):
        if xj:
            t = t + wj * xj
    return t


def rbm_joint_exponent(O, P, v, h):
    """-E(v,h) = b.v + c.h + h W v  of the two-layer RBM (weights W[h,v])"""
    W, b, c = P["weights"], P["visible_bias"], P["hidden_bias"]
    t = O.frac(0)
    for j, vj in enumerate(v):
        if vj:
            t = t + b[j]
    for i, hi in enumerate(h):
        if hi:
            t = t + c[i]
            for j, vj in enumerate(v):
                if vj:
                    t = t + W[i, j]
    return t


def rbm_hidden_marginal(O, P, v):
    """sum over hidden configurations of the Boltzmann weight exp(-E(v,h))"""
    nh = len(P["hidden_bias"])
    tot = O.frac(0)
    for h in itertools.product((0, 1), repeat=nh):
        tot = tot + O.exp(rbm_joint_exponent(O, P, v, h))
    return tot


def rbm_neg_eff_energy(O, P, v, wname="weights"):
    """-E_eff(v) = b.v + sum_i log(1 + exp(c_i + W_i.v))"""
    W, b, c = P[wname], P["visible_bias"], P["hidden_bias"]
    t = O.frac(0)
    for j, vj in enumerate(v):
        if vj:
            t = t + b[j]
    for i in range(len(c)):
        t = t + O.log(1 + O.exp(lin(O, W[i], v, c[i])))
    return t


# ---- unitaries -----------------------------------------------------------------------------------
def pauli_dict(O):
    """reference single-qubit basis-change unitaries: rows = +1 / -1 eigenvectors of the Pauli operator"""
    s = 1 / O.sqrt2() if O.symbolic else 1 / O.sqrt2()
    z0, o1 = O.frac(0), O.frac(1)
    return {
        "X": [[O.cplx(s), O.cplx(s)], [O.cplx(s), O.cplx(-s)]],
        "Y": [[O.cplx(s), O.cplx(z0, -s)], [O.cplx(s), O.cplx(z0, s)]],
        "Z": [[O.cplx(o1), O.cplx(z0)], [O.cplx(z0), O.cplx(o1)]],
    }


def kron_entry(O, udict, basis, r, c):
    """(U_{b0} (x) U_{b1} (x) ...)[r, c], site 0 the leftmost (most significant) factor"""
    n = len(basis)
    rb, cb = bits(r, n), bits(c, n)
    t = O.cplx(O.frac(1))
    for j, b in enumerate(basis):
        t = t * udict[b][rb[j]][cb[j]]
    return t


def unitary_from_tensor(B, t):
    """2x2 complex matrix (list of lists of backend complex scalars) from a real-pair tensor [2,2,2]"""
    a = B.scalars(t)
    O = B.O
    return [[O.cplx(a[0, r, c], a[1, r, c]) for c in range(2)] for r in range(2)]


# ---- reference models (PurificationRBM / density matrix) -------------------------------------------
def prbm_joint_exponent(O, P, v, h, a):
    """-E(v,h,a) = b.v + c.h + d.a + h W v + a U v of the three-layer purification RBM"""
    W, U, b, c, d = P["weights_W"], P["weights_U"], P["visible_bias"], P["hidden_bias"], P["aux_bias"]
    t = O.frac(0)
    for j, vj in enumerate(v):
        if vj:
            t = t + b[j]
    for i, hi in enumerate(h):
        if hi:
            t = t + c[i]
            for j, vj in enumerate(v):
                if vj:
                    t = t + W[i, j]
    for k, ak in enumerate(a):
        if ak:
            t = t + d[k]
            for j, vj in enumerate(v):
                if vj:
                    t = t + U[k, j]
    return t


def prbm_neg_energy_va(O, P, v, a):
    """-E(v,a) with the hidden layer traced out: b.v + sum_i softplus(c_i + W_i v) + d.a + a U v"""
    W, U, b, c, d = P["weights_W"], P["weights_U"], P["visible_bias"], P["hidden_bias"], P["aux_bias"]
    t = O.frac(0)
    for j, vj in enumerate(v):
        if vj:
            t = t + b[j]
    for i in range(len(c)):
        t = t + O.log(1 + O.exp(lin(O, W[i], v, c[i])))
    for k, ak in enumerate(a):
        if ak:
            t = t + lin(O, U[k], v, d[k])
    return t


def rho_ref(O, Pam, Pph, v, vp):
    """<v| rho |vp> = sum_a Psi(v,a) conj(Psi(vp,a)): the partial trace over the auxiliary units of the
    purified two-network RBM state  Psi(v,a) = exp(-E_am(v,a)/2) exp(-i E_ph(v,a)/2)"""
    na = len(Pam["aux_bias"])
    tot = O.cplx(O.frac(0))
    for a in itertools.product((0, 1), repeat=na):
        tot = tot + purification_amp(O, Pam, Pph, v, a) * O.conj(purification_amp(O, Pam, Pph, vp, a))
    return O.re(tot), O.im(tot)


def purification_amp(O, Pam, Pph, v, a):
    """Psi(v,a) as a backend complex scalar"""
    half = O.frac(1, 2)
    amp = O.exp(half * prbm_neg_energy_va(O, Pam, v, a))
    ang = half * prbm_neg_energy_va(O, Pph, v, a)
    return O.cplx(amp * O.cos(ang), amp * O.sin(ang))
