"""C19 Basis-state indexing and data loading are mutually consistent."""
import itertools
import numpy as np
from . import common as C
from vf import harness, e2

PID = "C19"

META = dict(
    level="other",
    explanation="(1) bounded SMT verification: _convert_basis_element_to_index is executed on a batch of SYMBOLIC rows and "
    "index(v) == sum_j v_j 2^(n-1-j) (big-endian, site 0 most significant) is a linear identity decided by z3; the tensor-product "
    "site order (site 0 = leftmost factor) is tied to the same convention by rotating a symbolic psi with non-palindromic basis "
    "strings against the dense Kronecker reference.  (2) pathfork: generate_hilbert_space / subspace_vector / index round trip for "
    "every size in the bound and every index (the solver enumerates the finite input space: exhaustive enumeration within the bound, "
    "reported as such), the size limit, and extract_refbasis_samples over all patterns of basis letters incl. user-defined letters",
    functions=["qucumber/nn_states/neural_state.py: generate_hilbert_space, subspace_vector, max_size", "qucumber/utils/unitaries.py: _convert_basis_element_to_index, _kron_mult, rotate_psi",
               "qucumber/utils/data.py: extract_refbasis_samples"],
    bounds=dict(quick="index identity n = 1..8 on 3 symbolic rows; rotation n=2,3 non-palindromic strings; spaces of size 1..5 all indices; extract_refbasis on 3 rows x 2 sites over the alphabet {X,Y,Z,H}; size 21 refused; space requested again after in-place edits, from 3 state objects; explicit rho positions n = 1, 2 (strings with Y)",
                thorough="spaces of size 1..7; size 20 accepted (2^20 rows) and 21 refused; 2 rows x 4 sites"),
    outside=["load_data / load_data_DM for arbitrary file contents: contents reach the code only through numpy.loadtxt's C parser, which cannot carry symbolic fields; only a bounded enumeration of small generated files (N, n <= 2, 0/1 samples, letters from {X,Y,Z,H}, a grid of target values; each path written and loaded twice) is explored",
             "sizes 8..19 of the Hilbert space (same vectorised code path, not enumerated)"],
    stubs=["torch -> vf.symtorch for part (1); real torch for part (2)"],
    exhaustive_parts="part (2) is exhaustive enumeration within its bound",
)


def index_identity(B, G, n, rows=3):
    from qucumber.utils import unitaries as U_

    O = B.O
    v = B.params("v", (rows, n))
    vt = B.tensor(v)
    idx = B.scalars(U_._convert_basis_element_to_index(vt))
    G.fact("shape", tuple(np.shape(idx)) == (rows,), np.shape(idx))
    # the rows handed in still denote the same basis states afterwards (and a second conversion agrees)
    after = B.scalars(vt)
    for r in range(rows):
        for j in range(n):
            G.eq("rows_unchanged[%d,%d]" % (r, j), after[r, j], v[r, j], tol=1e-13)
    idx2 = B.scalars(U_._convert_basis_element_to_index(vt))
    for r in range(rows):
        G.eq("index_again[%d]" % r, idx2[r], idx[r])
    for r in range(rows):
        ref = O.frac(0)
        for j in range(n):
            ref = ref + v[r, j] * (2 ** (n - 1 - j))
        G.eq("index[%d]" % r, idx[r], ref)
    G.twin("twin_little_endian", idx[0], sum((v[0, j] * (2 ** j) for j in range(1, n)), v[0, 0]) if n > 1 else v[0, 0] + 1)


def site_order(B, G, n, strings):
    from .c04 import explicit

    explicit(B, G, n, strings, custom=False, do_rho=False)


def hilbert(I):
    """row k of the generated space, subspace_vector(k) and the index computed back denote the same big-endian state"""
    import torch
    from qucumber.nn_states import PositiveWaveFunction
    from qucumber.utils.unitaries import _convert_basis_element_to_index

    size, num = I["size"], I["num"]
    from vf.pathfork import assume

    st = PositiveWaveFunction(2, 1, gpu=False)
    s = int(size)
    assume(I["num"] < 2 ** s) if not isinstance(num, int) else None
    k = int(num)
    if k >= 2 ** s:
        return True, "outside"
    space = st.generate_hilbert_space(size)
    if tuple(space.shape) != (2 ** s, s) or space.dtype != torch.double:
        return False, "space shape %s" % (tuple(space.shape),)
    bits = [(k >> (s - 1 - j)) & 1 for j in range(s)]
    if [int(x) for x in space[k].tolist()] != bits:
        return False, "row %d of the space is %s, expected %s" % (k, space[k].tolist(), bits)
    sv = st.subspace_vector(num, size)
    if [int(x) for x in sv.tolist()] != bits:
        return False, "subspace_vector(%d, %d) = %s, expected %s" % (k, s, sv.tolist(), bits)
    back = _convert_basis_element_to_index(space[k].unsqueeze(0))
    if int(back.item()) != k:
        return False, "index of row %d is %s" % (k, back.item())
    # history: the caller owns the returned tensor; after it was advanced / rescaled in place (sample(..., overwrite=True),
    # spin conversion) a new request - from this or any other state object - enumerates the space again
    from qucumber.nn_states import ComplexWaveFunction, DensityMatrix

    space.mul_(2).sub_(1)
    for other in (st, ComplexWaveFunction(2, 1, gpu=False), DensityMatrix(2, 1, 1, gpu=False)):
        again = other.generate_hilbert_space(size)
        if [int(x) for x in again[k].tolist()] != bits:
            return False, "after the first space was modified in place, %s.generate_hilbert_space(%d)[%d] = %s, expected %s" % (type(other).__name__, s, k, again[k].tolist(), bits)
        again.zero_()
    if [int(x) for x in st.subspace_vector(num, size).tolist()] != bits:
        return False, "subspace_vector after in-place edits of earlier results"
    return True, ""


def size_limit(I, big=False):
    from qucumber.nn_states import PositiveWaveFunction, ComplexWaveFunction, DensityMatrix

    for st in (PositiveWaveFunction(2, 1, gpu=False), ComplexWaveFunction(2, 1, gpu=False), DensityMatrix(2, 1, 1, gpu=False)):
        try:
            st.generate_hilbert_space(st.max_size + 1)
            return False, "size %d accepted" % (st.max_size + 1)
        except ValueError:
            pass
        if st.max_size != 20:
            return False, "max_size %r" % st.max_size
    # the limit applies to the default size (num_visible) as well as to an explicit size
    for cls, args in ((PositiveWaveFunction, (5, 1)), (ComplexWaveFunction, (5, 1)), (DensityMatrix, (5, 1, 1))):
        class Small(cls):
            max_size = property(lambda self: 4)

        s5 = Small(*args, gpu=False)
        for form, call in (("default size", lambda: s5.generate_hilbert_space()), ("explicit size", lambda: s5.generate_hilbert_space(5))):
            try:
                call()
                return False, "%s: a 5-site space was generated although max_size is 4 (%s)" % (cls.__name__, form)
            except ValueError:
                pass
        if tuple(s5.generate_hilbert_space(4).shape) != (16, 4):
            return False, "size 4 == max_size must be accepted"
    if big:
        sp = PositiveWaveFunction(2, 1, gpu=False).generate_hilbert_space(20)
        if tuple(sp.shape) != (2 ** 20, 20) or sp[2 ** 19 + 1].tolist() != [1.0] + [0.0] * 18 + [1.0]:
            return False, "size 20 space wrong"
    return True, ""


LET = ["X", "Y", "Z", "H"]


def refbasis(I, rows=3, sites=2):
    import torch
    from qucumber.utils.data import extract_refbasis_samples

    cells = [[int(I["c%d_%d" % (r, j)]) for j in range(sites)] for r in range(rows)]
    bases = np.array([[LET[c] for c in row] for row in cells])
    samples = torch.tensor([[float(10 * r + j) for j in range(sites)] for r in range(rows)], dtype=torch.double)
    before = samples.clone()
    out = extract_refbasis_samples(samples, bases)
    want = [r for r in range(rows) if all(LET[c] == "Z" for c in cells[r])]
    got = [int(round(x[0].item() / 10)) for x in out] if out.shape[0] else []
    if got != want or (out.shape[0] and out.shape[1] != sites):
        return False, "bases %s: returned rows %s, expected %s" % (bases.tolist(), got, want)
    if not torch.equal(samples, before):
        return False, "samples modified"
    return True, ""


def loaders(I, dm=False):
    """load_data / load_data_DM return what the files contain (targets to single precision); the same paths are written and
    loaded twice with different contents (nothing may be remembered between calls).  File contents are chosen by the symbolic
    integers (bits of the samples, a content code for letters and target values): enumeration within the bound."""
    import os
    import shutil
    import tempfile
    import torch
    from qucumber.utils import data as D

    N, n, code = int(I["N"]), int(I["n"]), int(I["code"])
    bits = [[int(I["b%d%d" % (r, c)]) for c in range(2)] for r in range(2)]
    d = tempfile.mkdtemp(prefix="c19.")
    try:
        paths = {k: os.path.join(d, k + ".txt") for k in ("samples", "psi", "re", "im", "tr_bases", "bases")}
        for rnd in range(2):
            cc = (code + 5 * rnd) % 16
            samples = [[(bits[r][c] + rnd * (r + c)) % 2 for c in range(n)] for r in range(N)]
            letters = [[LET[(cc >> (2 * ((r + c) % 2))) & 3] for c in range(n)] for r in range(N)]
            allb = sorted({"".join(l) for l in letters}, reverse=True)
            allb = allb + allb[:1]  # as written: not in sorted order, one entry twice
            dim = 2 ** n
            vals = [((cc + 3 * k) % 9 - 4) / 8.0 + 0.001 * k for k in range(2 * dim * dim)]
            with open(paths["samples"], "w") as f:
                f.write("\n".join(" ".join(str(x) for x in row) for row in samples) + "\n")
            with open(paths["tr_bases"], "w") as f:
                f.write("\n".join(" ".join(row) for row in letters) + "\n")
            with open(paths["bases"], "w") as f:
                f.write("\n".join(allb) + "\n")
            if dm:
                with open(paths["re"], "w") as f:
                    f.write("\n".join(" ".join(repr(vals[i * dim + j]) for j in range(dim)) for i in range(dim)) + "\n")
                with open(paths["im"], "w") as f:
                    f.write("\n".join(" ".join(repr(vals[dim * dim + i * dim + j]) for j in range(dim)) for i in range(dim)) + "\n")
                out = D.load_data_DM(paths["samples"], paths["re"], paths["im"], paths["tr_bases"], paths["bases"])
            else:
                with open(paths["psi"], "w") as f:
                    f.write("\n".join("%r %r" % (vals[k], vals[dim + k]) for k in range(dim)) + "\n")
                out = D.load_data(paths["samples"], paths["psi"], paths["tr_bases"], paths["bases"])
            if len(out) != 4:
                return False, "loader returned %d items" % len(out)
            got_s = out[0].reshape(N, n) if (N == 1 or n == 1) else out[0]
            if got_s.dtype != torch.double or got_s.tolist() != [[float(x) for x in row] for row in samples]:
                return False, "round %d: samples %s, file has %s" % (rnd, out[0].tolist(), samples)
            import numpy as np

            f32 = lambda x: float(np.float32(x))  # noqa: E731
            if dm:
                want = [[[f32(vals[i * dim + j]) for j in range(dim)] for i in range(dim)], [[f32(vals[dim * dim + i * dim + j]) for j in range(dim)] for i in range(dim)]]
                got_t = out[1].reshape(2, dim, dim).tolist()
            else:
                want = [[f32(vals[k]) for k in range(dim)], [f32(vals[dim + k]) for k in range(dim)]]
                got_t = out[1].tolist()
            if got_t != want:
                return False, "round %d: target %s, file has %s" % (rnd, got_t, want)
            got_b = np.asarray(out[2]).reshape(N, n).tolist() if n > 1 or N > 1 else [[str(np.asarray(out[2]).reshape(-1)[0])]]
            if [[str(x) for x in row] for row in got_b] != letters:
                return False, "round %d: bases %s, file has %s" % (rnd, got_b, letters)
            if [str(x) for x in np.asarray(out[3]).reshape(-1)] != allb:
                return False, "round %d: basis list %s, file has %s" % (rnd, out[3], allb)
            # a caller editing what it got must not affect later loads
            np.asarray(out[2]).reshape(-1)[0] = "Q"
        return True, ""
    finally:
        shutil.rmtree(d, ignore_errors=True)


def jobs(tier):
    J = [dict(name="index-n%d" % n, module="checks.c19", scenario="index_identity", kwargs=dict(n=n)) for n in range(1, 9)]
    J.append(dict(name="site-order-n2", module="checks.c19", scenario="site_order", kwargs=dict(n=2, strings=["XZ", "ZY", "YX"])))
    J.append(dict(name="site-order-n3", module="checks.c19", scenario="site_order", kwargs=dict(n=3, strings=["XZZ", "ZZY", "XYZ"])))
    # position (i, j) of a density-matrix array the library ACCEPTS (rho= of rotate_rho / rotate_rho_probs) is row i, column j
    # in the same big-endian order (scenario shared with C04; fully symbolic Hermitian rho, so a transposition shows with Y)
    J.append(dict(name="accepted-rho-positions-n1", module="checks.c04", scenario="explicit", kwargs=dict(n=1, strings=["Y", "X", "Z"])))
    J.append(dict(name="accepted-rho-positions-n2", module="checks.c04", scenario="explicit", kwargs=dict(n=2, strings=["YZ", "XY", "ZZ"])))
    return J


def specs(tier):
    smax = 5 if tier == "quick" else 7
    S = [dict(name="hilbert", module="checks.c19", function="hilbert", kwargs={}, inputs=dict(size=("int", 1, smax), num=("int", 0, 2 ** smax - 1))),
         dict(name="size-limit", module="checks.c19", function="size_limit", kwargs=dict(big=(tier != "quick")), inputs={})]
    r, s_ = (3, 2) if tier == "quick" else (2, 4)
    S.append(dict(name="refbasis", module="checks.c19", function="refbasis", kwargs=dict(rows=r, sites=s_),
                  inputs={"c%d_%d" % (i, j): ("int", 0, 3) for i in range(r) for j in range(s_)}))
    lin = dict(N=("int", 1, 2), n=("int", 1, 2), code=("int", 0, 15 if tier != "quick" else 3), b00=("int", 0, 1), b01=("int", 0, 1), b10=("int", 0, 1), b11=("int", 0, 1))
    S.append(dict(name="loaders-psi", module="checks.c19", function="loaders", kwargs=dict(dm=False), inputs=lin))
    S.append(dict(name="loaders-dm", module="checks.c19", function="loaders", kwargs=dict(dm=True), inputs=lin))
    return S


def main(tier, seed):
    ex = e2.run_specs(PID, tier, specs(tier))
    return harness.run_check(PID, tier, jobs(tier), META, seed=seed, extra=ex)
