"""C08 Observable estimators are unbiased for the operator they name."""
import numpy as np
from . import common as C
from vf import harness

PID = "C08"

META = dict(
    level="other",
    explanation="bounded SMT verification: SigmaX/SigmaY/SigmaZ/NeighbourInteraction.apply are executed symbolically on the full "
    "basis; the goal sum_s p(s) apply(s) == Re Tr(rho~ O) (both sides unnormalised, i.e. times Z), with the operator matrix "
    "built in the harness from the Pauli definitions, is an identity over ALL real parameter values decided by z3 on the "
    "normal-form residual",
    functions=[
        "qucumber/observables/pauli.py: SigmaX.apply, SigmaY.apply, SigmaZ.apply, flip_spin",
        "qucumber/observables/interactions.py: NeighbourInteraction.apply",
        "qucumber/observables/utils.py: to_pm1",
        "qucumber/nn_states: importance_sampling_numerator / denominator, psi, rho(expand=False), probability",
        "qucumber/utils/cplx.py: elementwise_division, elementwise_mult, make_complex, real",
    ],
    bounds=dict(quick="positive (2,2),(3,2); complex (2,2),(3,2),(4,3); mixed (1,1,1),(2,1,1),(2,2,2),(3,2,1); all basis states weighted exactly; c = 1..n, open and periodic; absolute on/off",
                thorough="additionally positive (4,3),(5,2); complex (1,2),(5,2),(5,4); mixed (3,2,2),(4,1,1),(4,2,2),(5,1,1)"),
    outside=["num_visible > 5", "sampling error of Monte-Carlo estimates (the basis is weighted exactly)", "floating point"],
    stubs=["torch -> vf.symtorch"],
    assumptions=["Z magnetisation / ZZ interaction use the library's documented spin map to_pm1 (sigma=0 -> -1, sigma=1 -> +1); X and Y are the standard Pauli matrices in the (sigma=0, sigma=1) ordering (same convention as the rotation dictionary, C04)"],
)


def op_entry(O, name, n, s, sp, c=1, periodic=False):
    """<s| Op |sp> for the averaged operators; s, sp bit tuples"""
    one, zero = O.frac(1), O.frac(0)
    tot = O.cplx(zero)
    if name in ("X", "Y"):
        for i in range(n):
            if all((s[j] == sp[j]) != (j == i) for j in range(n)):
                if name == "X":
                    tot = tot + O.cplx(one)
                else:
                    # Y = [[0, -i], [i, 0]] in the (0, 1) ordering: <0|Y|1> = -i, <1|Y|0> = +i
                    tot = tot + (O.cplx(zero, -one) if s[i] == 0 else O.cplx(zero, one))
        return tot * O.cplx(O.frac(1, n))
    if s != sp:
        return tot
    z = [2 * b - 1 for b in s]
    if name == "Z":
        return O.cplx(O.frac(sum(z), n))
    if name == "ZZ":
        if periodic:
            v = sum(z[i] * z[(i + c) % n] for i in range(n))
        else:
            v = sum(z[i] * z[i + c] for i in range(n - c))
        return O.cplx(O.frac(v, n))
    raise ValueError(name)


def scenario(B, G, kind, n, h, a=None):
    from qucumber.observables import SigmaX, SigmaY, SigmaZ, NeighbourInteraction

    O = B.O
    st, P = C.make_state(B, kind, n, h, a)
    rows = C.space_rows(n)
    D = len(rows)
    space = C.space_tensor(B, n)
    prob = B.scalars(st.probability(space))
    if kind == "mixed":
        r_ = B.scalars(st.rho(space, space))
        rho = [[O.cplx(r_[0, i, j], r_[1, i, j]) for j in range(D)] for i in range(D)]
    else:
        ps = B.scalars(st.psi(space))
        psi = [O.cplx(ps[0, i], ps[1, i]) for i in range(D)]
        rho = None
    obs = [("X", SigmaX, {}), ("Y", SigmaY, {}), ("Z", SigmaZ, {})]
    for c in range(1, n + 1):
        for per in (False, True):
            obs.append(("ZZ", NeighbourInteraction, dict(c=c, periodic_bcs=per)))
    for name, cls, kw in obs:
        tag = name + ("" if name != "ZZ" else "[c=%d,%s]" % (kw["c"], "pbc" if kw["periodic_bcs"] else "obc"))
        ob = cls(**kw)
        batch = space.clone()
        before = B.scalars(batch).copy()
        vals_t = ob.apply(st, batch)
        vals = B.scalars(vals_t)
        G.fact("%s.returns_real_vector" % tag, tuple(vals.shape) == (D,), "shape %s" % (vals.shape,))
        G.fact("%s.samples_unchanged" % tag, bool(np.all(B.scalars(batch) == before)), "sample array after apply")
        lhs = O.frac(0)
        for k in range(D):
            lhs = lhs + prob[k] * vals[k]
        tr = O.cplx(O.frac(0))
        for i in range(D):
            for j in range(D):
                e = op_entry(O, name, n, rows[j], rows[i], kw.get("c", 1), kw.get("periodic_bcs", False))
                if (O.re(e) == 0 and O.im(e) == 0):
                    continue
                rij = rho[i][j] if rho is not None else psi[i] * O.conj(psi[j])
                tr = tr + rij * e
        G.eq("%s.unbiased" % tag, lhs, O.re(tr))
        # entry k of the result belongs to row k of the batch: an unsorted batch with repeats gives the same value per state
        order = list(reversed(range(D))) + [0, D - 1, D // 2]
        if D > 2:
            order[0], order[1] = order[1], order[0]
        shuffled = C.rows_tensor(B, [rows[i] for i in order])
        vs = B.scalars(ob.apply(st, shuffled))
        G.fact("%s.unsorted_batch_shape" % tag, tuple(vs.shape) == (len(order),), vs.shape)
        if tuple(vs.shape) == (len(order),):
            for k, i in enumerate(order):
                G.eq("%s.value_follows_its_row[%d]" % (tag, k), vs[k], vals[i])
        if name != "ZZ":
            oa = cls(absolute=True)
            va = B.scalars(oa.apply(st, space.clone()))
            for k in range(D):
                G.eq("%s.absolute_sq[%d]" % (tag, k), va[k] ** 2, vals[k] ** 2)
                G.nonneg("%s.absolute_nonneg[%d]" % (tag, k), va[k])
    if n <= 2:
        # history: the SAME observable objects on the SAME (unmodified) batch tensor, before and after the state is re-parameterised in
        # place (as training and loading do): the second evaluation is unbiased for the NEW state (nothing remembered from the first)
        held = space.clone()
        hobs = [("X", SigmaX()), ("Y", SigmaY()), ("Z", SigmaZ())]
        for name, ob in hobs:
            ob.apply(st, held)
        for part in ("am", "ph"):
            if hasattr(st, "rbm_" + part) and part in P:
                C.load_rbm(B, getattr(st, "rbm_" + part), part + "'", zero=(("aux_bias",) if (kind == "mixed" and part == "ph") else ()))
        prob2 = B.scalars(st.probability(space))
        if kind == "mixed":
            r_ = B.scalars(st.rho(space, space))
            rho2 = [[O.cplx(r_[0, i, j], r_[1, i, j]) for j in range(D)] for i in range(D)]
        else:
            ps = B.scalars(st.psi(space))
            psi2 = [O.cplx(ps[0, i], ps[1, i]) for i in range(D)]
        for name, ob in hobs:
            v2 = B.scalars(ob.apply(st, held))
            lhs = O.frac(0)
            for k in range(D):
                lhs = lhs + prob2[k] * v2[k]
            tr = O.cplx(O.frac(0))
            for i in range(D):
                for j in range(D):
                    e = op_entry(O, name, n, rows[j], rows[i])
                    if O.re(e) == 0 and O.im(e) == 0:
                        continue
                    rij = rho2[i][j] if kind == "mixed" else psi2[i] * O.conj(psi2[j])
                    tr = tr + rij * e
            G.eq("%s.unbiased_after_reparameterisation_same_batch" % name, lhs, O.re(tr))
        for part in ("am", "ph"):  # back to the first parameterisation for the twins below
            if hasattr(st, "rbm_" + part) and part in P:
                for pname, p_ in getattr(st, "rbm_" + part).named_parameters():
                    B.load(p_, P[part][pname])
    vy = B.scalars(SigmaY().apply(st, space.clone()))
    if kind != "positive":
        trm = O.cplx(O.frac(0))
        for i in range(D):
            for j in range(D):
                e = op_entry(O, "Y", n, rows[j], rows[i])
                if O.re(e) == 0 and O.im(e) == 0:
                    continue
                rij = rho[i][j] if rho is not None else psi[i] * O.conj(psi[j])
                trm = trm + rij * O.conj(e)
        G.twin("twin_Y_sign", sum((prob[k] * vy[k] for k in range(1, D)), prob[0] * vy[0]), O.re(trm))
    vz = B.scalars(SigmaZ().apply(st, space.clone()))
    G.twin("twin_Z_no_weight", sum((prob[k] * vz[k] for k in range(1, D)), prob[0] * vz[0]), sum((vz[k] for k in range(1, D)), vz[0]))


def jobs(tier):
    cfg = [("positive", 2, 2, None), ("positive", 3, 2, None), ("complex", 2, 2, None), ("complex", 3, 2, None), ("complex", 4, 3, None),
           ("mixed", 1, 1, 1), ("mixed", 2, 1, 1), ("mixed", 2, 2, 2), ("mixed", 3, 2, 1)]
    if tier != "quick":
        cfg += [("positive", 4, 3, None), ("positive", 5, 2, None), ("complex", 1, 2, None), ("complex", 5, 2, None), ("complex", 5, 4, None),
                ("mixed", 3, 2, 2), ("mixed", 4, 1, 1), ("mixed", 4, 2, 2), ("mixed", 5, 1, 1)]
    J = [dict(name="%s-%d-%d-%s" % (k, n, h, a), module="checks.c08", scenario="scenario", kwargs=dict(kind=k, n=n, h=h, a=a), opts=dict(timeout_ms=120000)) for k, n, h, a in cfg]
    # the X / Y estimators of a mixed state are built from off-diagonal density-matrix elements rho(v', v, expand=False): C02's entrywise
    # scenario (all call forms, clamp / branch-cut search, float run at larger magnitudes) is run here for one architecture
    J.append(dict(name="density-matrix-elements-2-2-2", module="checks.c02", scenario="scenario", kwargs=dict(n=2, h=2, a=2), opts=dict(extreme=dict(scale=8.0, points=2))))
    return J


def main(tier, seed):
    return harness.run_check(PID, tier, jobs(tier), META, seed=seed)
