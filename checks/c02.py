"""C02 The reconstructed density matrix is always a physical state (DESIGN.md section 2 / C02)."""
import itertools
from . import common as C
from vf import harness

PID = "C02"

META = dict(
    level="other",
    explanation="bounded SMT verification: DensityMatrix.rho / pi / gamma / probability / normalization executed "
    "symbolically (all weights and biases of both networks free real variables, phase auxiliary bias 0); entrywise "
    "identity with the partial trace of the purification, Hermiticity, diagonal, trace and the PSD chain are "
    "identity / sign queries over ALL real parameter values decided by z3 on the normal-form residual",
    functions=[
        "qucumber/nn_states/density_matrix.py: DensityMatrix.rho, pi, importance_sampling_*",
        "qucumber/rbm/purification_rbm.py: PurificationRBM.gamma, effective_energy(v), effective_energy(v,a), partition",
        "qucumber/nn_states/neural_state.py: NeuralStateBase.probability, normalization",
        "qucumber/utils/cplx.py: make_complex, real, imag",
    ],
    bounds=dict(
        quick="architectures (num_visible,num_hidden,num_aux) in {(1,1,1),(1,2,2),(1,1,2),(2,1,1),(2,2,1),(2,2,2),(3,1,1)}; all pairs of basis states; rho(space,space), rho(v,vp,expand=False) on all pairs, 1-D rho(v,vp); sampler kernel (C05 scenario) for (1,1,1),(2,1,2); real-torch float runs at 2 parameter points of magnitude <= 8 per job",
        thorough="additionally (2,1,2),(1,3,3),(2,3,3),(3,2,2),(3,1,2),(4,1,1),(4,2,1),(3,3,2),(1,4,4),(3,1,3),(4,3,1); same call forms; sampler kernel also (2,2,2),(3,2,1)",
    ),
    outside=["floating point", "num_visible = 4 with num_aux > 1, num_aux = 4, architectures not listed (query size grows as 4^n 4^a)",
             "the measure-zero parameter set where 1 + exp(x_k + i y_k) = 0 for an auxiliary unit (log 0 in the real-arithmetic model); listed under assumptions"],
    stubs=["torch -> vf.symtorch"],
)


def scenario(B, G, n, h, a, psd=True):
    O = B.O
    st, P = C.make_state(B, "mixed", n, h, a)
    rows = C.space_rows(n)
    D = len(rows)
    space = C.space_tensor(B, n)
    rho = B.scalars(st.rho(space, space))
    prob = B.scalars(st.probability(space))
    Z = B.scalars(st.normalization(space)).reshape(-1)[0]
    G.fact("shapes", rho.shape == (2, D, D) and prob.shape == (D,), "rho %s prob %s" % (rho.shape, prob.shape))
    # energy ties: the effective energies are the marginals of the defining three-layer energy
    auxs = list(itertools.product((0, 1), repeat=a))
    hids = list(itertools.product((0, 1), repeat=h))
    for net, rbm in (("am", st.rbm_am),):
        for i, v in enumerate(rows):
            vt = C.rows_tensor(B, [v])
            tot = O.frac(0)
            for ai, av in enumerate(auxs):
                at = C.rows_tensor(B, [av])
                e_va = B.scalars(rbm.effective_energy(vt, at)).reshape(-1)[0]
                ref = O.frac(0)
                for hv in hids:
                    ref = ref + O.exp(C.prbm_joint_exponent(O, P[net], v, hv, av))
                G.eq("E(v,a)[%d,%d]" % (i, ai), O.exp(-e_va), ref)
                tot = tot + O.exp(-e_va)
            e_v = B.scalars(rbm.effective_energy(vt)).reshape(-1)[0]
            G.eq("E(v)[%d]" % i, O.exp(-e_v), tot)
    tr = O.frac(0)
    for i, v in enumerate(rows):
        for j, vp in enumerate(rows):
            re_ref, im_ref = C.rho_ref(O, P["am"], P["ph"], v, vp)
            G.eq("rho_re[%d,%d]" % (i, j), rho[0, i, j], re_ref)
            G.eq("rho_im[%d,%d]" % (i, j), rho[1, i, j], im_ref)
            if j > i:
                G.eq("herm_re[%d,%d]" % (i, j), rho[0, i, j], rho[0, j, i])
                G.eq("herm_im[%d,%d]" % (i, j), rho[1, i, j], -rho[1, j, i])
            # single-element (1-D) call form
            v1, vp1 = C.rows_tensor(B, [v])[0], C.rows_tensor(B, [vp])[0]
            e1 = B.scalars(st.rho(v1, vp1))
            G.fact("1d_shape[%d,%d]" % (i, j), tuple(e1.shape) == (2,), "rho(v,vp) shape %s" % (e1.shape,))
            G.eq("1d_re[%d,%d]" % (i, j), e1.reshape(-1)[0], rho[0, i, j])
            G.eq("1d_im[%d,%d]" % (i, j), e1.reshape(-1)[1], rho[1, i, j])
        G.eq("diag[%d]" % i, rho[0, i, i], prob[i])
        G.eq("diag_im[%d]" % i, rho[1, i, i], O.frac(0))
        tr = tr + rho[0, i, i]
    G.eq("trace", tr, Z)
    G.pos("Z>0", Z)
    # paired-vector call form (expand=False) over all ordered pairs
    pairs = [(i, j) for i in range(D) for j in range(D)]
    vs = C.rows_tensor(B, [rows[i] for i, _ in pairs])
    vps = C.rows_tensor(B, [rows[j] for _, j in pairs])
    pv = B.scalars(st.rho(vs, vps, expand=False))
    G.fact("paired_shape", pv.shape == (2, len(pairs)), "rho(v,vp,expand=False) shape %s" % (pv.shape,))
    for k, (i, j) in enumerate(pairs):
        G.eq("paired_re[%d,%d]" % (i, j), pv[0, k], rho[0, i, j])
        G.eq("paired_im[%d,%d]" % (i, j), pv[1, k], rho[1, i, j])
    # full-matrix call form with two DIFFERENT batches of equal length (permuted columns; a square off-diagonal block)
    perm = list(reversed(range(D)))
    if D > 2:
        perm[0], perm[1] = perm[1], perm[0]
    rp = B.scalars(st.rho(space, C.rows_tensor(B, [rows[j] for j in perm])))
    G.fact("permuted_columns_shape", rp.shape == (2, D, D), rp.shape)
    if rp.shape == (2, D, D):
        for i in range(D):
            for k, j in enumerate(perm):
                G.eq("permuted_columns_re[%d,%d]" % (i, k), rp[0, i, k], rho[0, i, j])
                G.eq("permuted_columns_im[%d,%d]" % (i, k), rp[1, i, k], rho[1, i, j])
    if D >= 2:
        m = D // 2
        blk = B.scalars(st.rho(C.rows_tensor(B, rows[:m]), C.rows_tensor(B, rows[m:2 * m])))
        G.fact("offdiagonal_block_shape", blk.shape == (2, m, m), blk.shape)
        if blk.shape == (2, m, m):
            for i in range(m):
                for j in range(m):
                    G.eq("offdiagonal_block_re[%d,%d]" % (i, j), blk[0, i, j], rho[0, i, m + j])
                    G.eq("offdiagonal_block_im[%d,%d]" % (i, j), blk[1, i, j], rho[1, i, m + j])
    dv = B.scalars(st.rho(space, expand=False))
    for i in range(D):
        G.eq("rho(v,expand=False)[%d]" % i, dv[0, i], prob[i])
        G.eq("rho(v,expand=False)_im[%d]" % i, dv[1, i], O.frac(0))
    if psd:
        # PSD chain: (1) rho_ij == sum_a Psi_ia conj(Psi_ja) entrywise (goals rho_re / rho_im above);
        # (2) for ANY complex D x A matrix Psi and vector x:  x^dagger (Psi Psi^dagger) x == sum_a |sum_i conj(x_i) Psi_ia|^2
        #     (polynomial identity in free symbols);  (3) a sum of squares of reals is >= 0.
        A = len(auxs)
        xr, xi = B.params("x_re", (D,)), B.params("x_im", (D,))
        pr, pi_ = B.params("Psi_re", (D, A)), B.params("Psi_im", (D, A))
        quad = O.cplx(O.frac(0))
        for i in range(D):
            for j in range(D):
                gram = O.cplx(O.frac(0))
                for k in range(A):
                    gram = gram + O.cplx(pr[i, k], pi_[i, k]) * O.conj(O.cplx(pr[j, k], pi_[j, k]))
                quad = quad + O.conj(O.cplx(xr[i], xi[i])) * gram * O.cplx(xr[j], xi[j])
        sos = O.frac(0)
        for k in range(A):
            y = O.cplx(O.frac(0))
            for i in range(D):
                y = y + O.conj(O.cplx(xr[i], xi[i])) * O.cplx(pr[i, k], pi_[i, k])
            sos = sos + O.abs2(y)
        G.eq("psd_gram_quadratic_form_re", O.re(quad), sos)
        G.eq("psd_gram_quadratic_form_im", O.im(quad), O.frac(0))
        ys = B.params("y", (2 * A,))
        G.nonneg("psd_sum_of_squares", sum((t * t for t in ys[1:]), ys[0] * ys[0]))
    # history: the same object re-parameterised in place (written through .data, as users and loaders do), then reinitialised:
    # trace, normalisation and diagonal follow the new parameters (nothing computed for the old ones is remembered)
    P2 = {"am": C.load_rbm(B, st.rbm_am, "am'"), "ph": C.load_rbm(B, st.rbm_ph, "ph'", zero=("aux_bias",))}
    rho2 = B.scalars(st.rho(space, space))
    prob2 = B.scalars(st.probability(space))
    Z2 = B.scalars(st.normalization(space)).reshape(-1)[0]
    tr2 = O.frac(0)
    for i, v in enumerate(rows):
        re_ref, _ = C.rho_ref(O, P2["am"], P2["ph"], v, v)
        G.eq("reparam.diag[%d]" % i, rho2[0, i, i], re_ref)
        G.eq("reparam.prob[%d]" % i, prob2[i], re_ref)
        tr2 = tr2 + rho2[0, i, i]
    if D > 1:
        re_ref, im_ref = C.rho_ref(O, P2["am"], P2["ph"], rows[0], rows[D - 1])
        G.eq("reparam.rho_re[0,%d]" % (D - 1), rho2[0, 0, D - 1], re_ref)
        G.eq("reparam.rho_im[0,%d]" % (D - 1), rho2[1, 0, D - 1], im_ref)
    G.eq("reparam.trace==Z", tr2, Z2)
    pz = B.scalars(st.probability(space, st.normalization(space)))
    G.eq("reparam.normalised_probabilities_sum_to_one", sum(pz[1:], pz[0]), O.frac(1))
    G.twin("twin_drop_aux_bias", rho[0, 0, 0], C.rho_ref(O, dict(P["am"], aux_bias=[O.frac(0)] * a), P["ph"], rows[0], rows[0])[0])
    if D > 1:
        G.twin("twin_conj", rho[1, 0, D - 1], -C.rho_ref(O, P["am"], P["ph"], rows[0], rows[D - 1])[1])


def jobs(tier):
    archs = [(1, 1, 1), (1, 2, 2), (1, 1, 2), (2, 1, 1), (2, 2, 1), (2, 2, 2), (3, 1, 1)]
    if tier != "quick":
        archs += [(2, 1, 2), (1, 3, 3), (2, 3, 3), (3, 2, 2), (3, 1, 2), (4, 1, 1), (4, 2, 1), (3, 3, 2), (1, 4, 4), (3, 1, 3), (4, 3, 1)]
    out = [dict(name="dm-%d-%d-%d" % t, module="checks.c02", scenario="scenario", kwargs=dict(n=t[0], h=t[1], a=t[2])) for t in archs]
    for j in out:
        j["opts"] = dict(extreme=dict(scale=8.0, points=2))
    out.sort(key=lambda j: -(4 ** j["kwargs"]["n"]) * (4 ** j["kwargs"]["a"]) * (2 ** j["kwargs"]["h"]))
    # "... the probabilities the model reports AND SAMPLES FROM": the one-step kernel assembled from the probability tensors the
    # real sampler hands to torch.bernoulli is in detailed balance with the diagonal (scenario shared with C05)
    for t in [(1, 1, 1), (2, 1, 2)] + ([(2, 2, 2), (3, 2, 1)] if tier != "quick" else []):
        out.append(dict(name="samples-from-diagonal-%d-%d-%d" % t, module="checks.c05", scenario="kernel", kwargs=dict(kind="mixed", n=t[0], h=t[1], a=t[2])))
        # ... and k successive sweeps of the real sampler redraw every layer from the current state (C05's chain scenario)
        out.append(dict(name="sampler-sweeps-%d-%d-%d" % t, module="checks.c05", scenario="chain", kwargs=dict(kind="mixed", n=t[0], h=t[1], a=t[2])))
    return out


def main(tier, seed):
    return harness.run_check(PID, tier, jobs(tier), META, seed=seed)
