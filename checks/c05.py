"""C05 Gibbs sampling targets exactly the distribution the model reports."""
import itertools
import numpy as np
from . import common as C
from vf import harness

PID = "C05"

META = dict(
    level="other",
    explanation="bounded SMT verification with a nondeterministic Bernoulli stub: torch.bernoulli (the only randomness of "
    "gibbs_steps) records its probability argument (symbolic in all parameters) and returns an outcome chosen by the harness; "
    "all hidden / auxiliary / visible outcomes are unrolled.  The exact conditionals, detailed balance of the one-step kernel "
    "assembled from the recorded arguments, row sums and the chain structure for k steps are identities over ALL real "
    "parameter values decided by z3 on the normal-form residual",
    functions=[
        "qucumber/rbm/binary_rbm.py: prob_h_given_v, prob_v_given_h, sample_h_given_v, sample_v_given_h, gibbs_steps",
        "qucumber/rbm/purification_rbm.py: prob_h_given_v, prob_a_given_v, prob_v_given_ha, sample_*, gibbs_steps",
        "qucumber/nn_states/neural_state.py: NeuralStateBase.sample, probability",
    ],
    bounds=dict(
        quick="BinaryRBM (n,h) in {(1,1),(2,2),(2,3),(3,2),(3,3)}; PurificationRBM (n,h,a) in {(1,1,1),(2,1,2),(2,2,1),(2,2,2)}; all start states, all hidden/aux outcomes; k in 0..3; overwrite on/off; continued chains and held results; 2^n + 2 chains with duplicates; start states of shape [replica, chain, site]; three state types for sample()",
        thorough="additionally BinaryRBM (4,2),(2,4),(4,4),(3,4),(5,2),(4,5),(1,4); PurificationRBM (3,2,1),(2,3,2),(3,1,2),(3,2,2),(4,2,1),(3,3,3),(4,4,3),(4,3,3),(3,4,3),(1,4,3)",
    ),
    outside=["the empirical law of the real torch.bernoulli generator (statistical; not solver-decidable)", "n > 4", "device / dtype corner cases of overwrite", "floating point saturation of sigmoid"],
    stubs=["torch.bernoulli / torch.distributions.Bernoulli.sample -> recording stub returning harness-chosen 0/1 outcomes",
           "torch -> vf.symtorch"],
)


def bern_weight(O, p, outcome):
    """prod_i p_i^{o_i} (1-p_i)^{1-o_i}"""
    t = O.frac(1)
    for pi, oi in zip(p, outcome):
        t = t * (pi if oi else (1 - pi))
    return t


class Script:
    """scripted Bernoulli outcomes; records every probability argument"""

    def __init__(self, B):
        self.B = B
        self.queue = []
        self.calls = []
        B.stub_bernoulli(self)

    def __call__(self, p):
        self.calls.append(np.array(p, dtype=object if self.B.symbolic else float, copy=True))
        if not self.queue:
            raise RuntimeError("unscripted Bernoulli draw")
        o = np.asarray(self.queue.pop(0), dtype=float)
        return np.broadcast_to(o, np.shape(p)).copy() if o.shape != np.shape(p) else o


def kernel(B, G, kind, n, h, a=None):
    """exact conditionals, detailed balance and row sums of the one-step kernel"""
    O = B.O
    st, P = C.make_state(B, kind, n, h, a)
    rbm = st.rbm_am
    Pam = P["am"]
    rows = C.space_rows(n)
    hids = list(itertools.product((0, 1), repeat=rbm.num_hidden))
    auxs = list(itertools.product((0, 1), repeat=a)) if kind == "mixed" else [()]
    space = C.space_tensor(B, n)
    prob = B.scalars(st.probability(space))
    # (i) public conditional-probability methods vs exact conditionals of the joint Boltzmann weight
    for vi, v in enumerate(rows):
        vt = C.rows_tensor(B, [v])
        ph = B.scalars(rbm.prob_h_given_v(vt)).reshape(-1)
        for i in range(len(ph)):
            num, den = O.frac(0), O.frac(0)
            for hv in hids:
                for av in auxs:
                    w = O.exp(C.prbm_joint_exponent(O, Pam, v, hv, av)) if kind == "mixed" else O.exp(C.rbm_joint_exponent(O, Pam, v, hv))
                    den = den + w
                    if hv[i]:
                        num = num + w
            G.eq("p(h%d=1|v=%d)" % (i, vi), ph[i] * den, num)
        if kind == "mixed":
            pa = B.scalars(rbm.prob_a_given_v(vt)).reshape(-1)
            for k in range(len(pa)):
                num, den = O.frac(0), O.frac(0)
                for hv in hids:
                    for av in auxs:
                        w = O.exp(C.prbm_joint_exponent(O, Pam, v, hv, av))
                        den = den + w
                        if av[k]:
                            num = num + w
                G.eq("p(a%d=1|v=%d)" % (k, vi), pa[k] * den, num)
    for hi, hv in enumerate(hids):
        for ai, av in enumerate(auxs):
            ht = C.rows_tensor(B, [hv])
            if kind == "mixed":
                pv = B.scalars(rbm.prob_v_given_ha(ht, C.rows_tensor(B, [av]))).reshape(-1)
            else:
                pv = B.scalars(rbm.prob_v_given_h(ht)).reshape(-1)
            for j in range(n):
                num, den = O.frac(0), O.frac(0)
                for v in rows:
                    w = O.exp(C.prbm_joint_exponent(O, Pam, v, hv, av)) if kind == "mixed" else O.exp(C.rbm_joint_exponent(O, Pam, v, hv))
                    den = den + w
                    if v[j]:
                        num = num + w
                G.eq("p(v%d=1|h=%d,a=%d)" % (j, hi, ai), pv[j] * den, num)
    # (ii) one-step kernel assembled from the arguments torch.bernoulli receives inside the real gibbs_steps(1, v)
    sc = Script(B)
    # Decomposition (DESIGN.md 1.3): with W(v;h,a) the probability of the hidden/auxiliary outcome recorded from the
    # real run started at v and P(v';h,a) the probability of the visible outcome v',
    #   T(v->v') = sum_{h,a} W(v;h,a) P(v';h,a).
    # Detailed balance is posed termwise,  p(v) W(v;h,a) P(v';h,a) == p(v') W(v';h,a) P(v;h,a)  for every (h,a)
    # (summing over (h,a) gives p(v) T(v->v') == p(v') T(v'->v)), and the row sums as  sum_{h,a} W == 1,  sum_{v'} P == 1.
    W, Pv = {}, {}
    for vi, v in enumerate(rows):
        for hv in hids:
            for av in auxs:
                sc.calls.clear()
                sc.queue = [list(hv)] + ([list(av)] if kind == "mixed" else []) + [list(rows[0])]
                rbm.gibbs_steps(1, C.rows_tensor(B, [v])[0])
                ncalls = 3 if kind == "mixed" else 2
                G.fact("draws[v=%d,h=%s,a=%s]" % (vi, hv, av), len(sc.calls) == ncalls and not sc.queue, "%d Bernoulli draws" % len(sc.calls))
                wgt = bern_weight(O, sc.calls[0].reshape(-1), hv)
                if kind == "mixed":
                    wgt = wgt * bern_weight(O, sc.calls[1].reshape(-1), av)
                W[(vi, hv, av)] = wgt
                p_v = sc.calls[-1].reshape(-1)
                Pv[(vi, hv, av)] = [bern_weight(O, p_v, vp) for vp in rows]
    for vi in range(len(rows)):
        tot = O.frac(0)
        for hv in hids:
            for av in auxs:
                tot = tot + W[(vi, hv, av)]
                G.eq("visible_law_sums_to_1[v=%d,h=%s,a=%s]" % (vi, hv, av), sum(Pv[(vi, hv, av)][1:], Pv[(vi, hv, av)][0]), O.frac(1))
                for vj in range(vi + 1, len(rows)):
                    G.eq("detailed_balance[%d,%d|h=%s,a=%s]" % (vi, vj, hv, av),
                         prob[vi] * W[(vi, hv, av)] * Pv[(vi, hv, av)][vj], prob[vj] * W[(vj, hv, av)] * Pv[(vj, hv, av)][vi])
        G.eq("hidden_law_sums_to_1[v=%d]" % vi, tot, O.frac(1))
    # history: the same model object re-parameterised in place (written through .data) must sample from the new law
    P2 = C.load_rbm(B, rbm, "am'")
    for vi, v in enumerate(rows):
        sc.calls.clear()
        sc.queue = [list(hids[-1])] + ([list(auxs[-1])] if kind == "mixed" else []) + [list(rows[0])]
        rbm.gibbs_steps(1, C.rows_tensor(B, [v])[0])
        ph = sc.calls[0].reshape(-1)
        for i in range(len(ph)):
            num, den = O.frac(0), O.frac(0)
            for hv in hids:
                for av in auxs:
                    w = O.exp(C.prbm_joint_exponent(O, P2, v, hv, av)) if kind == "mixed" else O.exp(C.rbm_joint_exponent(O, P2, v, hv))
                    den = den + w
                    if hv[i]:
                        num = num + w
            G.eq("reparam.p(h%d=1|v=%d)" % (i, vi), ph[i] * den, num)
    pv = sc.calls[-1].reshape(-1)
    for j in range(n):
        num, den = O.frac(0), O.frac(0)
        for v in rows:
            w = O.exp(C.prbm_joint_exponent(O, P2, v, hids[-1], auxs[-1])) if kind == "mixed" else O.exp(C.rbm_joint_exponent(O, P2, v, hids[-1]))
            den = den + w
            if v[j]:
                num = num + w
        G.eq("reparam.p(v%d=1|h,a)" % j, pv[j] * den, num)
    if len(rows) > 1:
        h0, a0 = hids[-1], auxs[-1]
        G.twin("twin_asymmetric_term", prob[0] * W[(0, h0, a0)] * Pv[(0, h0, a0)][1], prob[0] * W[(1, h0, a0)] * Pv[(1, h0, a0)][0])


def chain(B, G, kind, n, h, a=None, kmax=3):
    """chain structure for k = 0..kmax, overwrite semantics, continued chains, sample()"""
    O = B.O
    st, P = C.make_state(B, kind, n, h, a)
    rbm = st.rbm_am
    rows = C.space_rows(n)
    nb = 2  # two parallel chains
    sc = Script(B)
    import random

    rnd = random.Random(n * 100 + h * 10 + (a or 0))

    def rand_bits(m):
        return [[rnd.randint(0, 1) for _ in range(m)] for _ in range(nb)]

    per = 3 if kind == "mixed" else 2
    for k in range(kmax + 1):
        start_rows = [rows[rnd.randrange(len(rows))] for _ in range(nb)]
        init = C.rows_tensor(B, start_rows)
        before = B.scalars(init).copy()
        script = []
        for t in range(k):
            script.append(rand_bits(rbm.num_hidden))
            if kind == "mixed":
                script.append(rand_bits(a))
            script.append(rand_bits(n))
        sc.calls.clear()
        sc.queue = [list(x) for x in script]
        out = rbm.gibbs_steps(k, init)
        G.fact("k=%d.draws" % k, len(sc.calls) == per * k and not sc.queue, "%d draws for k=%d" % (len(sc.calls), k))
        oa = B.scalars(out)
        G.fact("k=%d.shape" % k, tuple(oa.shape) == (nb, n), oa.shape)
        G.fact("k=%d.not_overwritten" % k, out is not init and bool(np.all(B.scalars(init) == before)), "overwrite=False leaves the start state untouched")
        expect = np.array(script[-1], dtype=float) if k > 0 else np.array(start_rows, dtype=float)
        G.fact("k=%d.returns_last_visible" % k, tuple(oa.shape) == expect.shape and all(float(oa[i, j]) == expect[i, j] for i in range(nb) for j in range(n)),
               "returned tensor is the last visible outcome (k=0: the start state)")
        cur = np.array(start_rows, dtype=float)
        for t in range(k):
            base = per * t
            ph_ref = B.scalars(rbm.prob_h_given_v(C.rows_tensor(B, cur.astype(int).tolist())))
            for i, j in np.ndindex(nb, rbm.num_hidden):
                G.eq("k=%d.step%d.p_h[%d,%d]" % (k, t, i, j), sc.calls[base][i, j], ph_ref[i, j])
            hcur = np.array(script[base], dtype=float)
            if kind == "mixed":
                pa_ref = B.scalars(rbm.prob_a_given_v(C.rows_tensor(B, cur.astype(int).tolist())))
                for i, j in np.ndindex(nb, a):
                    G.eq("k=%d.step%d.p_a[%d,%d]" % (k, t, i, j), sc.calls[base + 1][i, j], pa_ref[i, j])
                acur = np.array(script[base + 1], dtype=float)
                pv_ref = B.scalars(rbm.prob_v_given_ha(C.rows_tensor(B, hcur.astype(int).tolist()), C.rows_tensor(B, acur.astype(int).tolist())))
            else:
                pv_ref = B.scalars(rbm.prob_v_given_h(C.rows_tensor(B, hcur.astype(int).tolist())))
            for i, j in np.ndindex(nb, n):
                G.eq("k=%d.step%d.p_v[%d,%d]" % (k, t, i, j), sc.calls[base + per - 1][i, j], pv_ref[i, j])
            cur = np.array(script[base + per - 1], dtype=float)
    # overwrite=True: same object, updated in place; a continued chain starts from it
    init = C.rows_tensor(B, [rows[-1], rows[0]])
    sc.calls.clear()
    s1 = [rand_bits(rbm.num_hidden)] + ([rand_bits(a)] if kind == "mixed" else []) + [rand_bits(n)]
    sc.queue = [list(x) for x in s1]
    out = st.sample(1, initial_state=init, overwrite=True)
    G.fact("overwrite.same_object", out is init, "overwrite=True returns the caller's tensor")
    ia = B.scalars(init)
    G.fact("overwrite.updated_in_place", all(float(ia[i, j]) == float(s1[-1][i][j]) for i in range(nb) for j in range(n)), "caller's tensor holds the new chain state")
    sc.calls.clear()
    s2 = [rand_bits(rbm.num_hidden)] + ([rand_bits(a)] if kind == "mixed" else []) + [rand_bits(n)]
    sc.queue = [list(x) for x in s2]
    out2 = st.sample(1, initial_state=out, overwrite=False)
    ph_ref = B.scalars(rbm.prob_h_given_v(C.rows_tensor(B, s1[-1])))
    for i, j in np.ndindex(nb, rbm.num_hidden):
        G.eq("continued.p_h[%d,%d]" % (i, j), sc.calls[0][i, j], ph_ref[i, j])
    G.fact("continued.not_overwritten", out2 is not out and all(float(B.scalars(out)[i, j]) == float(s1[-1][i][j]) for i in range(nb) for j in range(n)), "second call without overwrite")
    # zero Gibbs steps requested through the public sample(): no draw, the start state is returned
    sc.calls.clear()
    sc.queue = []
    z0 = C.rows_tensor(B, [rows[-1], rows[0]])
    out0 = st.sample(0, initial_state=z0)
    G.fact("sample(k=0).no_draws", len(sc.calls) == 0, "%d Bernoulli draws for k=0" % len(sc.calls))
    G.fact("sample(k=0).returns_start", bool(np.all(B.scalars(out0) == B.scalars(z0))), "k=0 returns the start state")
    # 1-D start state: result keeps the shape (n,), also with overwrite
    for ow in (False, True):
        sc.calls.clear()
        sc.queue = [[1] * rbm.num_hidden] + ([[0] * a] if kind == "mixed" else []) + [list(rows[-1])]
        v1 = C.rows_tensor(B, [rows[0]])[0]
        o1 = st.sample(1, initial_state=v1, overwrite=ow)
        G.fact("sample(1-D,overwrite=%s).shape" % ow, tuple(B.scalars(o1).shape) == (n,) and tuple(B.scalars(v1).shape) == (n,), "returned %s, caller's %s" % (tuple(B.scalars(o1).shape), tuple(B.scalars(v1).shape)))
        G.fact("sample(1-D,overwrite=%s).values" % ow, [float(x) for x in B.scalars(o1).reshape(-1)] == [float(x) for x in rows[-1]], "last visible outcome")
    # more chains than basis states (so several chains sit in the same visible state): every chain gets its own draw of every layer
    big_rows = [rows[i % len(rows)] for i in range(len(rows) + 2)]
    bigt = C.rows_tensor(B, big_rows)
    nbig = len(big_rows)
    hbig = [[(i + j) % 2 for j in range(rbm.num_hidden)] for i in range(nbig)]  # duplicates of a visible state get DIFFERENT hidden outcomes
    abig = [[(i + j + 1) % 2 for j in range(a)] for i in range(nbig)] if kind == "mixed" else None
    vbig = [[(i * (j + 1)) % 2 for j in range(n)] for i in range(nbig)]
    sc.calls.clear()
    sc.queue = [hbig] + ([abig] if kind == "mixed" else []) + [vbig]
    obig = rbm.gibbs_steps(1, bigt)
    G.fact("many_chains.draw_shapes", len(sc.calls) == per and tuple(np.shape(sc.calls[0])) == (nbig, rbm.num_hidden) and tuple(np.shape(sc.calls[-1])) == (nbig, n),
           [tuple(np.shape(c_)) for c_ in sc.calls])
    if len(sc.calls) == per and tuple(np.shape(sc.calls[-1])) == (nbig, n):
        if kind == "mixed":
            pv_ref = B.scalars(rbm.prob_v_given_ha(C.rows_tensor(B, hbig), C.rows_tensor(B, abig)))
        else:
            pv_ref = B.scalars(rbm.prob_v_given_h(C.rows_tensor(B, hbig)))
        for i in range(nbig):
            G.eq("many_chains.p_v[%d,0]" % i, sc.calls[-1][i, 0], pv_ref[i, 0])
        G.fact("many_chains.result", [[float(x) for x in r_] for r_ in B.scalars(obig)] == [[float(x) for x in r_] for r_ in vbig], "last visible outcome per chain")
    # results the caller still holds survive later non-overwriting calls of the same shape (chains continued across calls)
    x0 = C.rows_tensor(B, [rows[-1], rows[0]])
    o1s, o2s = rand_bits(n), rand_bits(n)
    sc.calls.clear()
    sc.queue = [rand_bits(rbm.num_hidden)] + ([rand_bits(a)] if kind == "mixed" else []) + [o1s]
    r1 = st.sample(1, initial_state=x0, overwrite=False)
    sc.queue = [rand_bits(rbm.num_hidden)] + ([rand_bits(a)] if kind == "mixed" else []) + [o2s]
    r2 = st.sample(1, initial_state=r1, overwrite=False)
    G.fact("held_results.distinct_objects", r1 is not x0 and r2 is not r1, "each non-overwriting call returns a new tensor")
    G.fact("held_results.first_result_survives", [[float(x) for x in r_] for r_ in B.scalars(r1)] == [[float(x) for x in r_] for r_ in o1s], "first result after the second call")
    G.fact("held_results.second_result", [[float(x) for x in r_] for r_ in B.scalars(r2)] == [[float(x) for x in r_] for r_ in o2s], "second result")
    G.fact("held_results.start_untouched", [[float(x) for x in r_] for r_ in B.scalars(x0)] == [[float(x) for x in r_] for r_ in (rows[-1], rows[0])], "start state")
    # an explicit start state decides the number of chains, whatever num_samples says; with overwrite=True it is updated in place
    for ow in (False, True):
        x5 = C.rows_tensor(B, [rows[-1], rows[0]])
        sc.calls.clear()
        sc.queue = [rand_bits(rbm.num_hidden)] + ([rand_bits(a)] if kind == "mixed" else []) + [rand_bits(n)]
        o5 = st.sample(1, num_samples=5, initial_state=x5, overwrite=ow)
        G.fact("start_state_and_num_samples(overwrite=%s).shape" % ow, tuple(B.scalars(o5).shape) == (nb, n) and (o5 is x5) == ow,
               "result %s, same object as the start state: %s" % (tuple(B.scalars(o5).shape), o5 is x5))
    # start state with extra leading dimensions [replica, chain, site]: every unit is still drawn from its exact conditional
    init3 = C.rows_tensor(B, [rows[-1], rows[0]]).unsqueeze(1).clone()
    hb, vb = rand_bits(rbm.num_hidden), rand_bits(n)
    ab = rand_bits(a) if kind == "mixed" else None
    sc.calls.clear()
    sc.queue = [[[x] for x in hb]] + ([[[x] for x in ab]] if kind == "mixed" else []) + [[[x] for x in vb]]
    o3 = rbm.gibbs_steps(1, init3)
    G.fact("3-D start.shape", tuple(B.scalars(o3).shape) == (nb, 1, n), B.scalars(o3).shape)
    if len(sc.calls) == per:
        ph_ref = B.scalars(rbm.prob_h_given_v(C.rows_tensor(B, [rows[-1], rows[0]])))
        got = np.asarray(sc.calls[0], dtype=object).reshape(nb, -1)
        for i, j in np.ndindex(nb, rbm.num_hidden):
            G.eq("3-D start.p_h[%d,%d]" % (i, j), got[i, j], ph_ref[i, j])
        if kind == "mixed":
            pv_ref = B.scalars(rbm.prob_v_given_ha(C.rows_tensor(B, hb), C.rows_tensor(B, ab)))
        else:
            pv_ref = B.scalars(rbm.prob_v_given_h(C.rows_tensor(B, hb)))
        got = np.asarray(sc.calls[-1], dtype=object).reshape(nb, -1)
        for i, j in np.ndindex(nb, n):
            G.eq("3-D start.p_v[%d,%d]" % (i, j), got[i, j], pv_ref[i, j])
    else:
        G.fact("3-D start.draws", False, "%d Bernoulli draws for one step" % len(sc.calls))
    # overwrite=True on a non-contiguous start state (a column-sliced view): the caller's storage is updated in place
    if n >= 1:
        wide = C.rows_tensor(B, [list(r) + list(r) for r in (rows[-1], rows[0])])
        view = wide[:, ::2] if n > 1 else wide[:, :1]
        sc.calls.clear()
        newv = rand_bits(n)
        sc.queue = [rand_bits(rbm.num_hidden)] + ([rand_bits(a)] if kind == "mixed" else []) + [newv]
        o2 = st.sample(1, initial_state=view, overwrite=True)
        wa = B.scalars(wide)
        cols = list(range(0, 2 * n, 2)) if n > 1 else [0]
        ok = all(float(wa[i, c]) == float(newv[i][j]) for i in range(nb) for j, c in enumerate(cols))
        G.fact("overwrite.strided_view_updated_in_place", ok, "caller's backing tensor after overwrite=True on a strided view")
    # sample() without an initial state: start drawn from Bernoulli(1/2) of shape (num_samples, n)
    sc.calls.clear()
    sc.queue = [[[1] * n] * 3] + [[[0] * rbm.num_hidden] * 3] + ([[[0] * a] * 3] if kind == "mixed" else []) + [[[1] * n] * 3]
    out3 = st.sample(1, num_samples=3)
    first = sc.calls[0]
    G.fact("sample.initial_shape", tuple(np.shape(first)) == (3, n), np.shape(first))
    G.fact("sample.initial_is_fair_coin", all(float(x) == 0.5 for x in np.asarray(first).reshape(-1)), "Bernoulli(0.5)")
    ph_ref = B.scalars(rbm.prob_h_given_v(C.rows_tensor(B, [[1] * n] * 3)))
    for j in range(rbm.num_hidden):
        G.eq("sample.p_h[0,%d]" % j, sc.calls[1][0, j], ph_ref[0, j])
    G.fact("sample.shape", tuple(B.scalars(out3).shape) == (3, n), B.scalars(out3).shape)
    G.twin("twin_conditional_at_wrong_state", sc.calls[1][0, 0], B.scalars(rbm.prob_h_given_v(C.rows_tensor(B, [[0] * n])))[0, 0])


def jobs(tier):
    J = []

    def add(name, scen, **kw):
        J.append(dict(name=name, module="checks.c05", scenario=scen, kwargs=kw))

    bin_archs = [(1, 1), (2, 2), (2, 3), (3, 2), (3, 3)] + ([(4, 2), (2, 4), (4, 4), (3, 4), (5, 2), (4, 5), (1, 4)] if tier != "quick" else [])
    pur_archs = [(1, 1, 1), (2, 1, 2), (2, 2, 1), (2, 2, 2)] + ([(3, 2, 1), (2, 3, 2), (3, 1, 2), (3, 2, 2), (4, 2, 1), (3, 3, 3), (4, 4, 3), (4, 3, 3), (3, 4, 3), (1, 4, 3)] if tier != "quick" else [])
    for n, h in bin_archs:
        add("kernel-positive-%dx%d" % (n, h), "kernel", kind="positive", n=n, h=h)
        add("chain-positive-%dx%d" % (n, h), "chain", kind="positive", n=n, h=h)
    for n, h in bin_archs[:2]:
        add("chain-complex-%dx%d" % (n, h), "chain", kind="complex", n=n, h=h)
    add("kernel-complex-2x2", "kernel", kind="complex", n=2, h=2)
    for n, h, a in pur_archs:
        add("kernel-mixed-%d%d%d" % (n, h, a), "kernel", kind="mixed", n=n, h=h, a=a)
        add("chain-mixed-%d%d%d" % (n, h, a), "chain", kind="mixed", n=n, h=h, a=a)
    return J


def main(tier, seed):
    return harness.run_check(PID, tier, jobs(tier), META, seed=seed)
