"""C13 Streaming observable statistics equal the statistics of all drawn samples (pathfork)."""
import math
import numpy as np
from vf import harness, e2

PID = "C13"

META = dict(
    level="model_checking",
    explanation="(a) the real _update_statistics is executed by pathfork on SYMBOLIC REAL sufficient statistics (sum, sum of squares) "
    "of two blocks and symbolic integer block sizes; z3 decides, on every feasible path, that the merged mean / unbiased variance / "
    "count equal those of the union for ALL real data, and that the undefined variance of a one-value block is never used.  "
    "(b) the real ObservableBase.statistics / System.statistics / statistics_from_samples run under pathfork with symbolic "
    "num_samples, num_chains, burn_in, steps against a recording state; schedule, chunking, overwrite behaviour and the reported "
    "statistics are compared with a one-pass computation over all drawn chain states on every feasible path",
    functions=["qucumber/observables/utils.py: _update_statistics", "qucumber/observables/observable.py: ObservableBase.statistics, statistics_from_samples, sample",
               "qucumber/observables/system.py: System.statistics, statistics_from_samples"],
    bounds=dict(quick="merge: block sizes 0..5 x 1..5, all real sums / sums of squares; schedule: num_samples 1..6, num_chains 0..7, burn_in, steps 0..3, user-provided initial chains (1..3 chains) with overwrite on/off, one and two observables, composites incl. a 1e6 offset",
                thorough="block sizes up to 8, num_samples up to 9, num_chains up to 10"),
    outside=["the Markov chain itself (sample() is a recording stub; see C05)", "floating-point accumulation error (comparison tolerance 1e-9)", "block sizes beyond the bound"],
    stubs=["nn_state.sample -> recording stub returning tagged chain states (honours initial_state / overwrite like the real one)"],
)


def merge(I, twin=False):
    """merged statistics of two blocks == statistics of their union, for all real data"""
    from qucumber.observables.utils import _update_statistics

    na, nb = I["na"], I["nb"]
    Sa, Qa, Sb, Qb, junk_a, junk_b = I["Sa"], I["Qa"], I["Sb"], I["Qb"], I["junk_a"], I["junk_b"]
    from vf.pathfork import assume

    na_c, nb_c = int(na), int(nb)  # block sizes are concretised (the library converts them with float())
    # sufficient statistics of real data: a block of one value x has S = x, Q = x^2
    if na_c == 1:
        assume(Qa == Sa * Sa)
    if nb_c == 1:
        assume(Qb == Sb * Sb)

    def block(S, Q, n, junk):
        if n == 0:
            return 0.0, 0.0  # the library's initial running values
        mean = S / n
        if n == 1:
            return mean, junk  # unbiased variance of one value is NaN in torch: any value must be ignored
        return mean, (Q - S * S / n) / (n - 1)

    ma, va = block(Sa, Qa, na_c, junk_a)
    mb, vb = block(Sb, Qb, nb_c, junk_b)
    if na_c == 0:
        Sa, Qa = 0, 0
    mean, var, n = _update_statistics(ma, va, na_c, mb, vb, nb_c)
    N = na_c + nb_c
    if n != N:
        return False, "count %r, expected %d" % (n, N)
    S, Q = Sa + Sb, Qa + Qb
    if not bool(mean == S / N):
        return False, "merged mean differs from the mean of the union (sizes %d, %d)" % (na_c, nb_c)
    if N >= 2:
        ref = (Q - S * S / N) / (N if twin else N - 1)
        if not bool(var == ref):
            return False, "merged variance differs from the unbiased variance of the union (sizes %d, %d)" % (na_c, nb_c)
    return True, ""


def _rec_state(n=3):
    """a real PositiveWaveFunction whose RBM's gibbs_steps is a recorder: the real NeuralStateBase.sample() runs
    (incl. its choice of the start state), the Markov chain itself is replaced by tagged chain states"""
    import torch
    from qucumber.nn_states import PositiveWaveFunction

    st = PositiveWaveFunction(n, 2, gpu=False)
    st.calls = []
    st.states = []
    counter = [0]

    def gibbs_steps(k, initial_state, overwrite=False):
        st.calls.append(dict(k=k, initial=initial_state, overwrite=overwrite, shape=tuple(initial_state.shape), start=initial_state.clone()))
        counter[0] += 1
        # like the real gibbs_steps: a start state of another dtype is converted (a copy), so it is NOT advanced in place
        out = (initial_state if overwrite else initial_state.clone()).to(st.rbm_am.weights)
        g = torch.Generator().manual_seed(1000 + counter[0])
        out.copy_(torch.bernoulli(torch.full(out.shape, 0.5, dtype=torch.double), generator=g).to(out))
        st.states.append(out.clone())
        return out

    st.rbm_am.gibbs_steps = gibbs_steps
    st.n = n
    return st


def _observables():
    from qucumber.observables import ObservableBase

    class First(ObservableBase):
        def apply(self, nn_state, samples):
            return samples[:, 0] * 2.0 + samples[:, 1]

    class Occupation(ObservableBase):
        """occupation of site 0: returns a VIEW of the sample tensor (legal for a user-defined observable)"""

        def apply(self, nn_state, samples):
            return samples[:, 0]

    First.Occupation = Occupation

    class Second(ObservableBase):
        def apply(self, nn_state, samples):
            return samples.sum(1) - 0.5 * samples[:, -1]

    return First(), Second()


def _reuse(st, system):
    """history step: the SAME observable objects on the SAME (unmodified) sample tensor after the state changed, and two different
    observables that share one display symbol: every evaluation reports the statistics of what apply() returns now"""
    import torch
    from qucumber.observables import ObservableBase, System

    class Scaled(ObservableBase):
        def apply(self, nn_state, samples):
            return samples[:, 0] * nn_state.scale + samples[:, 1]

    class Summed(ObservableBase):
        def apply(self, nn_state, samples):
            return samples.sum(1) * nn_state.scale

    a, b = Scaled(), Summed()
    b.symbol = a.symbol
    samples = torch.tensor([[1.0, 0.0, 1.0], [0.0, 1.0, 1.0], [1.0, 1.0, 0.0], [1.0, 1.0, 1.0], [0.0, 0.0, 1.0]], dtype=torch.double)
    before = samples.clone()
    sysm = System(a, b)
    for scale in (1.0, 3.0, 3.0, -0.5):
        st.scale = scale
        if system:
            got = sysm.statistics_from_samples(st, samples)
        else:
            got = {a.name: a.statistics_from_samples(st, samples), b.name: b.statistics_from_samples(st, samples)}
        for ob in (a, b):
            mean, var, err, n = _onepass(ob.apply(st, before.clone()).numpy())
            r = got[ob.name]
            if int(r["num_samples"]) != n or not _close(r["mean"], mean) or not _close(r["variance"], var) or not _close(r["std_error"], err):
                return False, "re-evaluation on the same samples (state scale %r): %s reports mean %r variance %r, apply() gives mean %r variance %r" % (
                    scale, ob.name, float(r["mean"]), float(r["variance"]), mean, var)
        if not torch.equal(samples, before):
            return False, "statistics_from_samples modified the caller's samples"
    return True, ""


def _onepass(vals):
    vals = np.asarray(vals, dtype=float)
    n = len(vals)
    mean = float(vals.mean())
    var = float(vals.var(ddof=1)) if n > 1 else float("nan")
    return mean, var, (math.sqrt(var / n) if n > 1 else float("nan")), n


def _close(a, b):
    from vf.pathfork import SReal, SInt

    if isinstance(a, (SReal, SInt)):
        # still symbolic in the counts: decided by z3 under the path condition (both outcomes feasible => a failing path exists)
        if isinstance(b, float) and math.isnan(b):
            return False
        d = a - b
        tol = 1e-9 * (1 + abs(b))
        return bool((d <= tol) & (d >= -tol))
    if isinstance(b, float) and math.isnan(b):
        return isinstance(a, float) and math.isnan(a) or (hasattr(a, "item") and math.isnan(float(a)))
    return abs(float(a) - b) <= 1e-9 * (1 + abs(b))


def schedule(I, system=False, user_chains=0, overwrite=False, composite=False, init_dtype=None):
    import torch
    from qucumber.observables import System

    num_samples, num_chains, burn_in, steps = I["num_samples"], I["num_chains"], I["burn_in"], I["steps"]
    st = _rec_state()
    o1, o2 = _observables()
    comb = None  # reference arithmetic for o1 in terms of the values of its leaf
    leaf = o1
    if composite == "library":
        # the library's own observables, the one that converts spins first: each still gets the result it would get alone
        from qucumber.observables import SigmaZ, NeighbourInteraction

        o1, o2 = NeighbourInteraction(), SigmaZ()
    elif composite == "alias":
        # a composite whose first term returns a view of the samples: evaluating it must not write into the chain state
        leaf = type(o1).Occupation()
        o1, comb = leaf + 1.5, (lambda x: x + 1.5)
    elif composite == "offset":
        # a composite whose mean dwarfs its spread (non-dyadic values): the reported variance must still be the variance
        o1, comb = o1 * (1.0 / 3.0) + 1.0e6, (lambda x: x * (1.0 / 3.0) + 1.0e6)
    elif composite:
        o1, comb = 3 - 2 * o1, (lambda x: 3 - 2 * x)
    if system and not composite:
        o2.symbol = o1.symbol  # two different observables may share a display symbol: results are per observable
    kw = dict(num_chains=num_chains, burn_in=burn_in, steps=steps)
    init = None
    if user_chains:
        init = torch.tensor([[float((i + j) % 2) for j in range(st.n)] for i in range(user_chains)], dtype=torch.double)
        if init_dtype is not None:
            init = init.to(getattr(torch, init_dtype))
        init_before = init.clone()
        kw.update(initial_state=init, overwrite=overwrite)
    if system:
        res = System(o1, o2).statistics(st, num_samples, **kw)
        res1, res2 = res[o1.name], res[o2.name]
    else:
        res1, res2 = o1.statistics(st, num_samples, **kw), None
    ns, nc, bi, sp = int(num_samples), int(num_chains), int(burn_in), int(steps)
    chains = user_chains if user_chains else (ns if (nc == 0 or nc > ns) else nc)
    draws = -((-ns) // chains)
    ks = [c["k"] for c in st.calls]
    if len(ks) != draws:
        return False, "%d draws, expected %d (num_samples %d, chains %d)" % (len(ks), draws, ns, chains)
    if int(ks[0]) != bi or any(int(k) != sp for k in ks[1:]):
        return False, "Gibbs steps per draw %s, expected burn-in %d then %d" % ([int(k) for k in ks], bi, sp)
    if user_chains:
        if st.calls[0]["initial"] is None or tuple(st.calls[0]["initial"].shape) != (user_chains, st.n):
            return False, "first draw did not start from the user's chains"
        if not overwrite and not torch.equal(init, init_before):
            return False, "user's initial chains were modified although overwrite=False"
        if overwrite and init_dtype is None and not torch.equal(init, st.states[-1]):
            return False, "user's initial chains do not hold the final chain state although overwrite=True"
    else:
        if st.calls[0]["shape"] != (chains, st.n):
            return False, "first draw starts %s chains, expected %d" % (st.calls[0]["shape"], chains)
    for i in range(1, len(st.calls)):
        c = st.calls[i]
        if c["initial"] is None or not c["overwrite"]:
            return False, "draw %d does not continue the previous chains in place" % i
        if c["shape"] != st.calls[0]["shape"]:
            return False, "draw %d runs %s chains, the first draw %s" % (i, c["shape"], st.calls[0]["shape"])
        if init_dtype is None and not torch.equal(c["start"].to(torch.double), st.states[i - 1]):
            return False, "draw %d starts from %s, but the previous draw left the chains at %s (evaluating the observables changed the chain state)" % (i, c["start"].tolist(), st.states[i - 1].tolist())
    for (ob, res) in ((o1, res1), (o2, res2)):
        if res is None:
            continue
        if ob is o1 and comb is not None:
            vals = comb(np.concatenate([leaf.apply(st, s.clone()).numpy() for s in st.states]))
        else:
            vals = np.concatenate([ob.apply(st, s.clone()).numpy() for s in st.states])  # (clones: the record of the chain states is never handed to library code)
        mean, var, err, n = _onepass(vals)
        if int(res["num_samples"]) != n or n != chains * draws or n < ns:
            return False, "%s: reported count %r, drawn %d, requested %d" % (ob.name, res["num_samples"], n, ns)
        if not _close(res["mean"], mean):
            return False, "%s: mean %r vs one-pass %r" % (ob.name, res["mean"], mean)
        if not _close(res["variance"], var):
            return False, "%s: variance %r vs one-pass %r" % (ob.name, res["variance"], var)
        if not _close(res["std_error"], err):
            return False, "%s: std_error %r vs one-pass %r" % (ob.name, res["std_error"], err)
    return _reuse(st, system)


def specs(tier):
    S = []
    nmax = 5 if tier == "quick" else 8
    S.append(dict(name="merge", module="checks.c13", function="merge", kwargs={}, key="_update_statistics",
                  inputs=dict(na=("int", 0, nmax), nb=("int", 1, nmax), Sa=("real", None, None), Qa=("real", None, None), Sb=("real", None, None),
                              Qb=("real", None, None), junk_a=("real", None, None), junk_b=("real", None, None))))
    S.append(dict(name="twin-biased-variance", module="checks.c13", function="merge", kwargs=dict(twin=True), expect_fail=True,
                  inputs=dict(na=("int", 2, 2), nb=("int", 2, 2), Sa=("real", None, None), Qa=("real", None, None), Sb=("real", None, None),
                              Qb=("real", None, None), junk_a=("real", 0, 0), junk_b=("real", 0, 0))))
    smax, cmax = (6, 7) if tier == "quick" else (9, 10)
    sin = dict(num_samples=("int", 1, smax), num_chains=("int", 0, cmax), burn_in=("int", 0, 3), steps=("int", 0, 3))
    S.append(dict(name="schedule-observable", module="checks.c13", function="schedule", kwargs={}, inputs=sin))
    S.append(dict(name="schedule-system", module="checks.c13", function="schedule", kwargs=dict(system=True), inputs=sin))
    S.append(dict(name="schedule-composite", module="checks.c13", function="schedule", kwargs=dict(composite=True), inputs=dict(sin, burn_in=("int", 1, 1), steps=("int", 0, 1))))
    S.append(dict(name="schedule-system-library-observables", module="checks.c13", function="schedule", kwargs=dict(composite="library", system=True), inputs=dict(sin, num_chains=("int", 0, 3), burn_in=("int", 0, 1), steps=("int", 1, 1))))
    S.append(dict(name="schedule-library-observable-draws", module="checks.c13", function="schedule", kwargs=dict(composite="library"), inputs=dict(sin, num_chains=("int", 1, 2), burn_in=("int", 0, 1), steps=("int", 1, 1))))
    S.append(dict(name="schedule-system-aliasing-term", module="checks.c13", function="schedule", kwargs=dict(composite="alias", system=True), inputs=dict(sin, num_chains=("int", 0, 3), burn_in=("int", 0, 1), steps=("int", 1, 1))))
    S.append(dict(name="schedule-observable-aliasing-term", module="checks.c13", function="schedule", kwargs=dict(composite="alias"), inputs=dict(sin, num_chains=("int", 0, 3), burn_in=("int", 0, 1), steps=("int", 1, 1))))
    for dt in ("float32", "int64"):
        for sysm in (True, False):
            S.append(dict(name="schedule-%s-user-chains-%s" % ("system" if sysm else "observable", dt), module="checks.c13", function="schedule",
                          kwargs=dict(system=sysm, user_chains=2, overwrite=(dt == "float32"), init_dtype=dt, composite=True), inputs=dict(sin, num_chains=("int", 0, 1), burn_in=("int", 1, 2), steps=("int", 1, 2))))
    S.append(dict(name="schedule-composite-large-offset", module="checks.c13", function="schedule", kwargs=dict(composite="offset"), inputs=dict(sin, burn_in=("int", 1, 1), steps=("int", 1, 1))))
    S.append(dict(name="schedule-system-large-offset", module="checks.c13", function="schedule", kwargs=dict(composite="offset", system=True), inputs=dict(sin, num_chains=("int", 0, 3), burn_in=("int", 0, 0), steps=("int", 1, 1))))
    for uc in (1, 2, 3):
        for ow in (False, True):
            S.append(dict(name="schedule-user-chains-%d-%s" % (uc, "overwrite" if ow else "keep"), module="checks.c13", function="schedule",
                          kwargs=dict(user_chains=uc, overwrite=ow, system=(uc == 2)), inputs=dict(sin, num_chains=("int", 0, 1))))
    return S


def main(tier, seed):
    ex = e2.run_specs(PID, tier, specs(tier))
    return harness.run_check(PID, tier, [], META, seed=seed, extra=ex)
