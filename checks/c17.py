"""C17 Periodic callbacks fire on schedule and their records match what happened (pathfork over the real fit)."""
import contextlib
import csv
import io
import os
import shutil
import tempfile
import numpy as np
from vf import harness, e2

PID = "C17"

META = dict(
    level="model_checking",
    explanation="path-by-path symbolic execution (pathfork): starting epoch, last epoch, the periods of the callbacks and the epoch "
    "of an injected stop request are symbolic integers; the real MetricEvaluator / ObservableEvaluator / Logger / ModelSaver run "
    "inside the real fit; on every feasible path all public accessors, the CSV log, the logger messages and the files written "
    "(real torch.save / torch.load in a temporary directory) are compared with an independent record made by a user callback",
    functions=["qucumber/callbacks/metric_evaluator.py: MetricEvaluator (all methods)", "qucumber/callbacks/observable_evaluator.py: ObservableEvaluator, ObservableStatistics",
               "qucumber/callbacks/logger.py: Logger", "qucumber/callbacks/model_saver.py: ModelSaver", "qucumber/nn_states/neural_state.py: fit, save, load"],
    bounds=dict(quick="starting_epoch, epochs in 0..4; periods 1..4 (evaluator), 1..3 (logger, observable evaluator, saver); stop request at any epoch end or never; metadata absent / dict / callable, metadata_only, save_initial on/off; positive and complex states; clear_history between two runs; stop requested inside an epoch; two metric evaluators; an evaluator through the real System.statistics; caller-updated dict metadata; second run with the same saver and folder",
                thorough="epochs up to 6, periods up to 5, mixed state for the saver"),
    outside=["the statistics computed by System.statistics (scripted here; see C13)", "pickle fidelity of torch.save beyond load-back equality"],
    stubs=["metric functions / System.statistics -> scripted counters", "compute_batch_gradients -> constant non-zero gradients (so parameters differ between epochs)", "tqdm -> identity"],
)


class _Opt:
    def __init__(self, params, lr=None, **kw):
        pass

    def zero_grad(self):
        pass

    def step(self):
        pass


def evaluators(I, two_runs=False, twin=False, stop_in_batch=False):
    import torch
    from checks.c12 import _state
    from qucumber.callbacks import MetricEvaluator, ObservableEvaluator, Logger, LambdaCallback
    from qucumber.observables import SigmaZ

    start, epochs, p1, p2, p3, stop_at = I["start"], I["epochs"], I["p1"], I["p2"], I["p3"], I["stop_at"]
    st = _state("bare")
    clock = [0]
    record = []  # independent record: (epoch, clock value at the end of that epoch *before* the evaluators ran)
    d = tempfile.mkdtemp(prefix="c17.")
    try:
        def metric(s, **kw):
            clock[0] += 1
            return 10.0 * clock[0]

        def metric2(s, **kw):
            return -1.0 * clock[0]

        def metric3(s, **kw):  # values without a short decimal expansion, and tiny ones: the log must hold them as computed
            return clock[0] / 3.0 + 1e-9 * clock[0]

        log1, log2 = os.path.join(d, "m.csv"), os.path.join(d, "o.csv")
        # a metric may be named like an attribute of the evaluator: subscripting still yields that metric's values
        me = MetricEvaluator(p1, {"m": metric, "w": metric2, "last": lambda s, **kw: 7.0 * clock[0], "period": lambda s, **kw: 0.5 * clock[0], "third": metric3}, log=log1)
        # a second metric evaluator with its own period: evaluators keep separate histories
        me2 = MetricEvaluator(p2, {"n": lambda s, **kw: 100.0 + clock[0]})
        oe = ObservableEvaluator(p3, [SigmaZ()], log=log2, num_samples=1)
        ocount = [0]

        def scripted(nn_state, **kw):
            ocount[0] += 1
            return {"SigmaZ": {"mean": 1.0 * ocount[0], "variance": 2.0 * ocount[0], "std_error": 3.0 * ocount[0], "num_samples": 7}}

        oe.system.statistics = scripted
        # a third evaluator goes through the REAL System.statistics (an observable whose value is the clock reading; the chain
        # itself is a stub): what it recorded at earlier epochs must not change when it records again
        from qucumber.observables import ObservableBase

        class Probe(ObservableBase):
            def apply(self, nn_state, samples):
                return torch.full((samples.shape[0],), float(clock[0]), dtype=torch.double) + torch.arange(samples.shape[0], dtype=torch.double)

        st.sample = lambda k=1, num_samples=2, initial_state=None, overwrite=False: (initial_state if initial_state is not None else torch.zeros(num_samples, 2, dtype=torch.double))
        oe3 = ObservableEvaluator(p1, [Probe()], num_samples=2, burn_in=1, steps=1)
        probe_at = []
        rec3 = LambdaCallback(on_epoch_end=lambda s, ep: probe_at.append(clock[0]) if ep % int(p1) == 0 else None)
        logged = []
        lg = Logger(p2, logger_fn=logged.append, msg_gen=lambda s, ep, **kw: ("msg", ep, kw.get("tag")), tag="T")
        seen = []

        def on_end(s, ep):
            seen.append(ep)
            if ep == stop_at and not stop_in_batch:
                s.stop_training = True

        def on_bend(s, ep, b):
            # a stop requested in the middle of an epoch: that epoch still ends (and is an epoch of the run for every periodic callback)
            if stop_in_batch and ep == stop_at and b == 0:
                s.stop_training = True

        rec = LambdaCallback(on_epoch_end=on_end, on_batch_end=on_bend)
        data = torch.tensor([[0.0, 1.0], [1.0, 1.0], [1.0, 0.0]], dtype=torch.double)
        with contextlib.redirect_stdout(io.StringIO()):
            st.fit(data, epochs=epochs, pos_batch_size=2, starting_epoch=start, callbacks=[rec, me, me2, lg, oe, rec3, oe3], optimizer=_Opt)
            if two_runs:
                me.clear_history()
                me2.clear_history()
                oe.clear_history()
                oe3.clear_history()
                del probe_at[:]
                cleared = (len(me) == 0 and me.last == {} and len(me.epochs) == 0 and len(oe) == 0 and oe.last == {} and len(oe.epochs) == 0)
                first = list(seen)
                del seen[:]
                st.stop_training = False
                st.fit(data, epochs=epochs, pos_batch_size=2, starting_epoch=start, callbacks=[rec, me, me2, lg, oe, rec3, oe3], optimizer=_Opt)
        if two_runs and not cleared:
            return False, "clear_history left records behind: len %d/%d, last %r / %r" % (len(me), len(oe), me.last, oe.last)
        s0, e0, q1, q2, q3, k0 = int(start), int(epochs), int(p1), int(p2), int(p3), int(stop_at)
        run = [e for e in range(s0, e0 + 1)]
        if k0 in run:
            run = run[: run.index(k0) + 1]
        if seen != run:
            return False, "epochs run %s, expected %s" % (seen, run)
        want = [e for e in run if e % q1 == 0]
        if twin:
            want = [e for e in run if (e + 1) % q1 == 0]
        nprev = len([e for e in (first if two_runs else []) if e % q1 == 0])
        vals = [10.0 * (nprev + i + 1) for i in range(len(want))]
        if len(me) != len(want) or list(me.epochs) != want:
            return False, "MetricEvaluator acted at %s, expected %s" % (list(me.epochs), want)
        if me.names != ["m", "w", "last", "period", "third"] or list(me.m) != vals or list(me["m"]) != vals:
            return False, "per-name arrays %s vs %s" % (list(me.m), vals)
        try:
            sub = [list(me["last"]), list(me["period"])]
        except TypeError:
            sub = [me["last"], me["period"]]
        if sub != [[0.7 * v for v in vals], [0.05 * v for v in vals]] and sub != [[7.0 * (v / 10.0) for v in vals], [0.5 * (v / 10.0) for v in vals]]:
            return False, "subscripting metrics named like attributes gives %r, expected the recorded values of 'last' / 'period'" % (sub,)
        if want and (me.get_value("last") != 7.0 * (vals[-1] / 10.0) or me.period != q1):
            return False, "get_value('last') %r / period attribute %r" % (me.get_value("last"), me.period)
        for i in range(-len(want), len(want)):
            if me.get_value("m", i) != vals[i]:
                return False, "get_value('m', %d) = %r, expected %r" % (i, me.get_value("m", i), vals[i])
        if want:
            if me.get_value("m") != vals[-1] or me.last.get("m") != vals[-1] or me.last.get("w") != -(nprev + len(want)) * 1.0:
                return False, "last values %r / %r vs %r" % (me.get_value("m"), me.last, vals[-1])
        elif me.last != {}:
            return False, "last not empty: %r" % (me.last,)
        want2 = [e for e in run if e % q2 == 0]
        if len(me2) != len(want2) or list(me2.epochs) != want2 or me2.names != ["n"] or len(list(me2.n)) != len(want2):
            return False, "second MetricEvaluator (period %d) recorded epochs %s, expected %s" % (q2, list(me2.epochs), want2)
        rows = list(csv.DictReader(open(log1)))
        allwant = ([e for e in first if e % q1 == 0] if two_runs else []) + want
        if [int(r["epoch"]) for r in rows] != allwant or [float(r["m"]) for r in rows] != [10.0 * (i + 1) for i in range(len(allwant))]:
            return False, "CSV log rows %s vs epochs %s" % (rows, allwant)
        third = [(i + 1) / 3.0 + 1e-9 * (i + 1) for i in range(len(allwant))]
        if [float(r["third"]) for r in rows] != third or list(me.third)[-len(want):] != third[len(third) - len(want):]:
            return False, "CSV log holds %s for metric 'third', computed values were %s" % ([r["third"] for r in rows], third)
        # observable evaluator
        owant = [e for e in run if e % q3 == 0]
        oprev = len([e for e in (first if two_runs else []) if e % q3 == 0])
        if len(oe) != len(owant) or list(oe.epochs) != owant or oe.names != ["SigmaZ"]:
            return False, "ObservableEvaluator acted at %s, expected %s" % (list(oe.epochs), owant)
        means = [1.0 * (oprev + i + 1) for i in range(len(owant))]
        if list(oe.SigmaZ.mean) != means or list(oe["SigmaZ"]["means"]) != means or list(oe.SigmaZ.variances) != [2.0 * m for m in means]:
            return False, "observable statistics arrays %s vs %s" % (list(oe.SigmaZ.mean), means)
        for i in range(-len(owant), len(owant)):
            if oe.get_value("SigmaZ", i)["mean"] != means[i]:
                return False, "ObservableEvaluator.get_value index %d" % i
        if owant and (oe.get_value("SigmaZ")["std_error"] != 3.0 * means[-1] or oe.last["SigmaZ"]["mean"] != means[-1]):
            return False, "ObservableEvaluator last"
        orows = list(csv.DictReader(open(log2)))
        oall = ([e for e in first if e % q3 == 0] if two_runs else []) + owant
        if [int(r["epoch"]) for r in orows] != oall or [float(r["SigmaZ_mean"]) for r in orows] != [1.0 * (i + 1) for i in range(len(oall))]:
            return False, "observable CSV rows %s vs %s" % (orows, oall)
        pm = [c + 0.5 for c in probe_at]  # mean of (c, c + 1)
        if len(oe3) != len(probe_at) or [float(x) for x in oe3.Probe.mean] != pm or [float(oe3.get_value("Probe", i)["mean"]) for i in range(len(pm))] != pm:
            return False, "ObservableEvaluator history through System.statistics: means %s, values computed at those epochs %s" % ([float(x) for x in oe3.Probe.mean], pm)
        # logger
        lwant = [("msg", e, "T") for e in (first if two_runs else []) + run if e % q2 == 0]
        if logged != lwant:
            return False, "logger messages %s vs %s" % (logged, lwant)
        return True, ""
    finally:
        shutil.rmtree(d, ignore_errors=True)


def saver(I, kind="complex", metadata="dict", metadata_only=False, save_initial=True, stop_in_batch=False):
    import torch
    from qucumber.nn_states import PositiveWaveFunction, ComplexWaveFunction, DensityMatrix
    from qucumber.callbacks import ModelSaver, LambdaCallback
    import qucumber.nn_states.neural_state as ns

    ns.tqdm = lambda it, **kw: it
    start, epochs, period, stop_at = I["start"], I["epochs"], I["period"], I["stop_at"]
    st = {"positive": lambda: PositiveWaveFunction(2, 3, gpu=False), "complex": lambda: ComplexWaveFunction(2, 3, gpu=False),
          "mixed": lambda: DensityMatrix(2, 3, 1, gpu=False)}[kind]()
    nets = list(st.networks)
    st.compute_batch_gradients = lambda k, *batch, **kw: [torch.full((getattr(st, n).num_pars,), 0.5 + i, dtype=torch.double) for i, n in enumerate(nets)]
    d = tempfile.mkdtemp(prefix="c17s.")
    try:
        user_meta = {"note": "x", "nested": {"a": [1, 2]}}
        before = {"note": "x", "nested": {"a": [1, 2]}}
        md = {"none": None, "dict": user_meta, "callable": (lambda s, ep: {"epoch": ep, "nv": s.num_visible})}[metadata]
        ms = ModelSaver(period, d, "e{}.pt", save_initial=save_initial, metadata=md, metadata_only=metadata_only)
        snaps = {}

        def snap(tag):
            snaps[tag] = {n: {k: v.clone() for k, v in getattr(st, n).state_dict().items()} for n in nets}

        seen = []

        def on_end(s, ep):
            seen.append(ep)
            snap(ep)
            if metadata == "dict":
                user_meta["last_epoch"] = ep  # the caller keeps its metadata dict up to date (this callback runs before the saver)
                before["last_epoch"] = ep
            if ep == stop_at and not stop_in_batch:
                s.stop_training = True

        def on_bend(s, ep, b):
            if stop_in_batch and ep == stop_at and b == 0:
                s.stop_training = True

        rec = LambdaCallback(on_train_start=lambda s: snap("initial"), on_epoch_end=on_end, on_batch_end=on_bend)
        data = torch.tensor([[0.0, 1.0], [1.0, 1.0], [1.0, 0.0]], dtype=torch.double)
        kw = dict(epochs=epochs, pos_batch_size=2, starting_epoch=start, callbacks=[rec, ms], lr=0.1)
        if kind != "positive":
            kw["input_bases"] = np.array([["Z", "Z"], ["X", "Z"], ["Z", "Z"]])
        with contextlib.redirect_stdout(io.StringIO()):
            st.fit(data, **kw)
        s0, e0, p0, k0 = int(start), int(epochs), int(period), int(stop_at)
        run = [e for e in range(s0, e0 + 1)]
        if k0 in run:
            run = run[: run.index(k0) + 1]
        if seen != run:
            return False, "epochs run %s, expected %s" % (seen, run)
        want = {"e%d.pt" % e: e for e in run if e % p0 == 0}
        if save_initial:
            want["einitial.pt"] = "initial"
        got = sorted(os.listdir(d))
        if got != sorted(want):
            return False, "files %s, expected %s" % (got, sorted(want))
        for f, tag in want.items():
            blob = torch.load(os.path.join(d, f))
            ep = 0 if tag == "initial" else tag
            if metadata == "callable" and (blob.get("epoch") != ep or blob.get("nv") != 2):
                return False, "%s: callable metadata %r" % (f, {k: blob.get(k) for k in ("epoch", "nv")})
            if metadata == "dict" and (blob.get("note") != "x" or blob.get("nested") != {"a": [1, 2]}):
                return False, "%s: dict metadata missing" % f
            if metadata == "dict" and tag != "initial" and blob.get("last_epoch") != tag:
                return False, "%s: the caller's dict said last_epoch=%r when this file was written, the file holds %r" % (f, tag, blob.get("last_epoch"))
            if metadata_only:
                if any(n in blob for n in nets):
                    return False, "%s: metadata_only file contains network parameters" % f
                continue
            for n in nets:
                for k, v in snaps[tag][n].items():
                    if not torch.equal(blob[n][k], v):
                        return False, "%s: %s.%s differs from the parameters at the end of epoch %s" % (f, n, k, tag)
            # loads back into a fresh compatible model
            fresh = type(st)(2, 3, 1, gpu=False) if kind == "mixed" else type(st)(2, 3, gpu=False)
            fresh.load(os.path.join(d, f))
            for n in nets:
                for k, v in snaps[tag][n].items():
                    if not torch.equal(getattr(fresh, n).state_dict()[k], v):
                        return False, "%s: load() gives different %s.%s" % (f, n, k)
        if user_meta != before:
            return False, "caller's metadata dict was modified: %r" % (sorted(user_meta),)
        if save_initial and not metadata_only:
            # training is continued later with the same saver and folder: the initial checkpoint of THAT run is written again
            for n in nets:
                for p in getattr(st, n).parameters():
                    p.data.add_(0.375)
            st.stop_training = False
            with contextlib.redirect_stdout(io.StringIO()):
                st.fit(data, **dict(kw, starting_epoch=e0 + 1, epochs=e0 + 1))
            blob = torch.load(os.path.join(d, "einitial.pt"))
            for n in nets:
                for k, v in snaps["initial"][n].items():
                    if not torch.equal(blob[n][k], v):
                        return False, "second run: the initial checkpoint still holds the first run's start parameters (%s.%s)" % (n, k)
        return True, ""
    finally:
        shutil.rmtree(d, ignore_errors=True)


def specs(tier):
    S = []
    hi = 4 if tier == "quick" else 6
    pm = 4 if tier == "quick" else 5
    ev_in = dict(start=("int", 0, hi), epochs=("int", 0, hi), p1=("int", 1, pm), p2=("int", 1, 3), p3=("int", 1, 3), stop_at=("int", 0, hi))
    S.append(dict(name="evaluators", module="checks.c17", function="evaluators", kwargs={}, inputs=ev_in, pre=["p2 == p3"]))
    S.append(dict(name="evaluators-mixed-periods", module="checks.c17", function="evaluators", kwargs={}, inputs=ev_in, pre=["p1 == 2", "stop_at == 0", "start <= 1"]))
    S.append(dict(name="evaluators-stop-inside-an-epoch", module="checks.c17", function="evaluators", kwargs=dict(stop_in_batch=True),
                  inputs=dict(ev_in, start=("int", 0, 2), epochs=("int", 0, 3), stop_at=("int", 0, 3), p1=("int", 1, 3)), pre=["p2 == p3", "p2 <= 2"]))
    S.append(dict(name="evaluators-two-runs", module="checks.c17", function="evaluators", kwargs=dict(two_runs=True),
                  inputs=dict(ev_in, start=("int", 0, 2), epochs=("int", 0, 3), stop_at=("int", 0, 0)), pre=["p2 == 1", "p3 == p1"]))
    sv_in = dict(start=("int", 0, 3), epochs=("int", 0, 3), period=("int", 1, 3), stop_at=("int", 0, 3))
    combos = [("complex", "dict", False, True), ("complex", "callable", False, True), ("positive", "none", False, False), ("positive", "dict", True, True),
              ("complex", "none", False, True), ("positive", "none", True, True)]
    if tier != "quick":
        combos += [("mixed", "dict", False, True), ("mixed", "callable", True, False), ("positive", "callable", False, True), ("complex", "dict", True, False)]
    for kind, md, only, init in combos:
        S.append(dict(name="saver-%s-%s%s%s" % (kind, md, "-only" if only else "", "" if init else "-noinit"), module="checks.c17", function="saver",
                      kwargs=dict(kind=kind, metadata=md, metadata_only=only, save_initial=init), inputs=sv_in,
                      key="ModelSaver" + ("/dict metadata" if md == "dict" else "")))
    S.append(dict(name="saver-complex-callable-stop-inside-an-epoch", module="checks.c17", function="saver",
                  kwargs=dict(kind="complex", metadata="callable", metadata_only=False, save_initial=True, stop_in_batch=True), inputs=sv_in, key="ModelSaver"))
    S.append(dict(name="twin-shifted-schedule", module="checks.c17", function="evaluators", kwargs=dict(twin=True), expect_fail=True,
                  inputs=dict(start=("int", 1, 1), epochs=("int", 2, 3), p1=("int", 2, 2), p2=("int", 1, 1), p3=("int", 1, 1), stop_at=("int", 0, 0))))
    return S


def main(tier, seed):
    ex = e2.run_specs(PID, tier, specs(tier))
    return harness.run_check(PID, tier, [], META, seed=seed, extra=ex)
