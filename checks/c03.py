"""C03 Training gradients are the exact gradients of the negative log-likelihood."""
import itertools
import numpy as np
from . import common as C
from vf import harness
from vf.backend import derivatives

PID = "C03"

META = dict(
    level="other",
    explanation="bounded SMT verification: gradient / positive_phase_gradients / compute_exact_gradients / rotated_gradient "
    "are executed symbolically; the oracle is the symbolic derivative (chain rule over the expression DAG) of the "
    "negative log-likelihood built from the library's own psi / rho / normalization (tied to their definitions by C01/C02) "
    "and the dense Kronecker unitary; every gradient entry is an identity over all real parameter values decided by z3 on "
    "the normal-form residual.  In the real-torch replay the reference derivative is a central finite difference.",
    functions=[
        "qucumber/nn_states/neural_state.py: gradient, positive_phase_gradients, compute_exact_gradients",
        "qucumber/nn_states/positive_wavefunction.py: gradient, positive_phase_gradients, compute_exact_grads",
        "qucumber/nn_states/complex_wavefunction.py: rotated_gradient, am_grads, ph_grads",
        "qucumber/nn_states/density_matrix.py: rotated_gradient, am_grads, ph_grads, pi_grad, rho",
        "qucumber/rbm/binary_rbm.py: effective_energy_gradient(reduce=True/False), prob_h_given_v",
        "qucumber/rbm/purification_rbm.py: effective_energy_gradient, gamma_grad, prob_h_given_v, prob_a_given_v, mixing_term",
        "qucumber/utils/unitaries.py: rotate_psi_inner_prod, rotate_rho_probs, _rotate_basis_state",
        "qucumber/utils/cplx.py: einsum, inverse, scalar_mult, sigmoid, make_complex",
    ],
    bounds=dict(
        quick="positive (n,h) in {(1,1),(2,2),(2,1),(3,2)} all basis states; complex n=1 (h<=2) all 3 strings x 2 outcomes, n=2 h=2 strings XY,YZ,YY,ZZ x 4 outcomes; "
        "mixed (1,1,1) all 3 strings x 2 outcomes; batches of 4-5 rows with repeated / all-Z / mixed bases in two orders and a split; one 10-row batch holding all 9 two-site basis strings (complex (2,1))",
        thorough="complex n=2 (h in {1,2,3}) all 9 strings x 4 outcomes; complex n=3 h=2 on 5 strings; mixed (1,1,1),(1,2,2),(1,1,2),(1,2,1) all strings, mixed (2,1,1) on strings XY, YZ, ZZ, YY",
    ),
    outside=["3^n strings for n>=3 (complex) / n>=2 exhaustively (mixed): polynomial size", "floating point", "regulariser: the oracle quotes the library's literal 1e-8 exactly"],
    stubs=["torch -> vf.symtorch"],
)


def param_lists(st, P, kind):
    nets = [("am", st.rbm_am)] + ([("ph", st.rbm_ph)] if kind != "positive" else [])
    out = []
    for tag, rbm in nets:
        names = [nm for nm, _ in rbm.named_parameters()]
        out.append((tag, [getattr(rbm, nm) for nm in names], [P[tag][nm] for nm in names]))
    return out


def nll_terms(B, st, kind, n, udict):
    """returns fn(sample_row, basis_row) -> unnormalised probability  (built from the library's psi / rho)"""
    O = B.O
    D = 2 ** n
    space = C.space_tensor(B, n)

    def ptilde(row, basis):
        idx = int("".join(map(str, row)), 2)
        if kind == "mixed":
            rho = B.scalars(st.rho(space, space))
            acc = O.cplx(O.frac(0))
            for i in range(D):
                ui = C.kron_entry(O, udict, basis, idx, i)
                for j in range(D):
                    acc = acc + ui * O.cplx(rho[0, i, j], rho[1, i, j]) * O.conj(C.kron_entry(O, udict, basis, idx, j))
            if all(b == "Z" for b in basis):
                return O.re(acc)  # reference-basis rows use probability() directly: no regulariser
            return O.re(acc) + O.lit(1e-8)
        psi = B.scalars(st.psi(space))
        acc = O.cplx(O.frac(0))
        for i in range(D):
            acc = acc + C.kron_entry(O, udict, basis, idx, i) * O.cplx(psi[0, i], psi[1, i])
        return O.abs2(acc)

    def logZ():
        return O.log(B.scalars(st.normalization(space)).reshape(-1)[0])

    return ptilde, logZ


def get_udict(B, st, kind):
    from qucumber.utils import unitaries as U_

    d = st.unitary_dict if kind != "positive" else U_.create_dict()
    return {k: C.unitary_from_tensor(B, v) for k, v in d.items()}


def per_sample(B, G, kind, n, h, a, strings, outcomes=None):
    """positive-phase gradient of every single sample == d(-log ptilde)/d theta, both call forms"""
    O = B.O
    st, P = C.make_state(B, kind, n, h, a)
    udict = get_udict(B, st, kind)
    ptilde, logZ = nll_terms(B, st, kind, n, udict)
    plist = param_lists(st, P, kind)
    rows = C.space_rows(n)
    if outcomes is not None:
        rows = [rows[i] for i in outcomes]
    tol = 1e-6
    for bs in strings:
        basis = list(bs)
        for row in rows:
            tag = "%s|%s" % (bs, "".join(map(str, row)))
            samples = C.rows_tensor(B, [row])
            if kind == "positive":
                g = st.gradient(samples)
                g1 = st.gradient(samples[0])
            else:
                g = st.gradient(samples, bases=np.array([basis]))
                g1 = st.gradient(samples[0], bases=basis)
            G.fact("len[%s]" % tag, len(g) == len(plist), "gradient returned %d vectors" % len(g))
            for ni, (net, params, arrays) in enumerate(plist):
                L, dref = derivatives(B, lambda: -O.log(ptilde(row, basis)), params, arrays)
                gv, gv1 = B.scalars(g[ni]).reshape(-1), B.scalars(g1[ni]).reshape(-1)
                G.fact("size[%s][%s]" % (tag, net), len(gv) == len(dref) == getattr(st, "rbm_" + net).num_pars, "%d vs %d" % (len(gv), len(dref)))
                for k, d in enumerate(dref):
                    ref = d if d is not None else O.frac(0)
                    G.eq("grad[%s][%s][%d]" % (tag, net, k), gv[k], ref, tol=tol)
                    G.eq("grad1d[%s][%s][%d]" % (tag, net, k), gv1[k], gv[k])
    # twin: the gradient is not the gradient of +log p
    net, params, arrays = plist[0]
    row, basis = rows[-1], list(strings[-1])
    samples = C.rows_tensor(B, [row])
    g = st.gradient(samples) if kind == "positive" else st.gradient(samples, bases=np.array([basis]))
    L, dref = derivatives(B, lambda: O.log(ptilde(row, basis)), params, arrays)
    # a hidden-bias entry: its gradient -sigmoid(...) never vanishes identically (weight entries do for rows with a 0 bit)
    names = [nm for nm, _ in st.rbm_am.named_parameters()]
    kk = sum(int(np.prod(np.shape(a_))) for nm, a_ in zip(names, arrays) if names.index(nm) < names.index("hidden_bias"))
    G.twin("twin_sign", B.scalars(g[0]).reshape(-1)[kk], dref[kk])


def batch(B, G, kind, n, h, a, data, bases):
    """whole-batch methods: linear composition, mean, exact negative phase, callability"""
    O = B.O
    st, P = C.make_state(B, kind, n, h, a)
    udict = get_udict(B, st, kind)
    ptilde, logZ = nll_terms(B, st, kind, n, udict)
    plist = param_lists(st, P, kind)
    space = C.space_tensor(B, n)
    N = len(data)
    samples = C.rows_tensor(B, data)
    barr = np.array([list(b) for b in bases]) if kind != "positive" else None
    kw = dict(bases=barr) if kind != "positive" else {}
    kwb = dict(bases_batch=barr) if kind != "positive" else {}
    g = st.gradient(samples, **kw)
    # per-sample gradients
    per = []
    for s in range(N):
        one = C.rows_tensor(B, [data[s]])
        per.append(st.gradient(one, **(dict(bases=np.array([list(bases[s])])) if kind != "positive" else {})))
    perm = list(reversed(range(N)))
    g_perm = st.gradient(C.rows_tensor(B, [data[i] for i in perm]), **(dict(bases=barr[perm]) if kind != "positive" else {}))
    half = N // 2
    g_a = st.gradient(C.rows_tensor(B, data[:half]), **(dict(bases=barr[:half]) if kind != "positive" else {}))
    g_b = st.gradient(C.rows_tensor(B, data[half:]), **(dict(bases=barr[half:]) if kind != "positive" else {}))
    pos = st.positive_phase_gradients(samples, **kwb)
    exact = G.call("compute_exact_gradients_callable", st.compute_exact_gradients, samples, space, **kwb)
    if kind == "positive":
        exact2 = G.call("compute_exact_grads_callable", st.compute_exact_grads, samples, space, key="PositiveWaveFunction.compute_exact_grads")
    else:
        exact2 = None

    # d NLL / d theta = (1/N) sum_s d(-log ptilde_s) + d log Z.  The first part is covered per sample
    # (scenario per_sample) plus the composition goals below; here the exact negative phase is tied to d log Z.

    for ni, (net, params, arrays) in enumerate(plist):
        gv = B.scalars(g[ni]).reshape(-1)
        gp = B.scalars(g_perm[ni]).reshape(-1)
        ga, gb = B.scalars(g_a[ni]).reshape(-1), B.scalars(g_b[ni]).reshape(-1)
        pv = B.scalars(pos[ni]).reshape(-1)
        L, dref = derivatives(B, logZ, params, arrays)
        for k in range(len(gv)):
            tot = O.frac(0)
            for s in range(N):
                tot = tot + B.scalars(per[s][ni]).reshape(-1)[k]
            G.eq("sum_of_samples[%s][%d]" % (net, k), gv[k], tot)
            G.eq("row_order[%s][%d]" % (net, k), gp[k], gv[k])
            G.eq("split[%s][%d]" % (net, k), ga[k] + gb[k], gv[k])
            G.eq("mean[%s][%d]" % (net, k), pv[k] * N, gv[k])
            ref = dref[k] if dref[k] is not None else O.frac(0)
            if exact is not None:
                G.eq("negative_phase_is_dlogZ[%s][%d]" % (net, k), B.scalars(exact[ni]).reshape(-1)[k] - pv[k], ref, tol=1e-6)
            if exact2 is not None:
                G.eq("exact_grads_alias[%s][%d]" % (net, k), B.scalars(exact2[ni]).reshape(-1)[k], B.scalars(exact[ni]).reshape(-1)[k] if exact is not None else ref)
    if exact is not None:
        G.twin("twin_no_negative_phase", B.scalars(exact[0]).reshape(-1)[0], B.scalars(pos[0]).reshape(-1)[0])


def all_strings(n):
    return ["".join(t) for t in itertools.product("XYZ", repeat=n)]


def jobs(tier):
    J = []

    def add(name, scen, **kw):
        J.append(dict(name=name, module="checks.c03", scenario=scen, kwargs=kw, opts=dict(timeout_ms=120000)))

    # positive
    for (n, h) in [(1, 1), (2, 2), (2, 1), (3, 2)] + ([(3, 3), (4, 2)] if tier != "quick" else []):
        add("pos-sample-%dx%d" % (n, h), "per_sample", kind="positive", n=n, h=h, a=None, strings=["Z" * n])
    add("pos-batch-2x2", "batch", kind="positive", n=2, h=2, a=None, data=[[0, 1], [1, 1], [0, 1], [1, 0], [0, 0]], bases=None)
    add("pos-batch-3x2", "batch", kind="positive", n=3, h=2, a=None, data=[[0, 1, 1], [1, 1, 0], [0, 1, 1], [1, 0, 0]], bases=None)
    # complex
    for h in (1, 2):
        for s in all_strings(1):
            add("cplx-sample-1x%d-%s" % (h, s), "per_sample", kind="complex", n=1, h=h, a=None, strings=[s])
    c2 = ["XY", "YZ", "YY", "ZZ", "ZX"] if tier == "quick" else all_strings(2)
    for s in c2:
        add("cplx-sample-2x2-%s" % s, "per_sample", kind="complex", n=2, h=2, a=None, strings=[s])
    add("cplx-batch-2x2", "batch", kind="complex", n=2, h=2, a=None, data=[[0, 1], [1, 1], [0, 1], [1, 0], [0, 0]], bases=["XY", "ZZ", "YZ", "ZZ", "XY"])  # (first and last row share their basis)
    add("cplx-batch-1x2", "batch", kind="complex", n=1, h=2, a=None, data=[[0], [1], [1], [0]], bases=["X", "Z", "Y", "X"])
    # one batch holding every basis string of two sites (grouping of rows by basis must keep all 9 apart), rows not grouped by basis
    nine = ["ZX", "XY", "YZ", "XZ", "YX", "ZZ", "XX", "ZY", "YY", "XZ"]
    add("cplx-batch-2x1-all-strings", "batch", kind="complex", n=2, h=1, a=None,
        data=[[0, 1], [1, 1], [1, 0], [0, 0], [1, 1], [0, 1], [1, 0], [1, 1], [0, 0], [1, 0]], bases=nine)
    # mixed
    for s in all_strings(1):
        add("mixed-sample-111-%s" % s, "per_sample", kind="mixed", n=1, h=1, a=1, strings=[s])
    add("mixed-batch-111", "batch", kind="mixed", n=1, h=1, a=1, data=[[0], [1], [1], [0]], bases=["X", "Z", "Y", "X"])
    # two sites and two auxiliary units: the (aux x visible) block of the exact negative phase has a layout to get wrong
    add("mixed-batch-212", "batch", kind="mixed", n=2, h=1, a=2, data=[[0, 1], [1, 1], [1, 0]], bases=["ZZ", "XZ", "ZZ"])
    if tier != "quick":
        for h in (1, 3):
            for s in all_strings(2):
                add("cplx-sample-2x%d-%s" % (h, s), "per_sample", kind="complex", n=2, h=h, a=None, strings=[s])
        for s in ["XYZ", "YYX", "ZXY", "YZY", "ZZZ"]:
            for oc in ([0, 3, 5], [6, 7]):
                add("cplx-sample-3x2-%s-%d" % (s, oc[0]), "per_sample", kind="complex", n=3, h=2, a=None, strings=[s], outcomes=oc)
        for arch in [(1, 2, 2), (1, 1, 2), (1, 2, 1)]:
            for s in all_strings(1):
                add("mixed-sample-%d%d%d-%s" % (arch + (s,)), "per_sample", kind="mixed", n=arch[0], h=arch[1], a=arch[2], strings=[s])
        for s in ["XY", "YZ", "ZZ", "YY"]:
            for oc in range(4):
                add("mixed-sample-211-%s-%d" % (s, oc), "per_sample", kind="mixed", n=2, h=1, a=1, strings=[s], outcomes=[oc])
        add("mixed-batch-211-all-strings", "batch", kind="mixed", n=2, h=1, a=1,
            data=[[0, 1], [1, 1], [1, 0], [0, 0], [1, 1], [0, 1], [1, 0], [1, 1], [0, 0], [1, 0]], bases=nine)
        add("mixed-batch-122", "batch", kind="mixed", n=1, h=2, a=2, data=[[0], [1], [1], [0]], bases=["Y", "Z", "Y", "X"])
    return J


def main(tier, seed):
    return harness.run_check(PID, tier, jobs(tier), META, seed=seed)
