"""Runs one scenario on the REAL torch at a parameter point theta (JSON on stdin -> JSON on stdout)."""
import json
import sys
import traceback


def main():
    req = json.loads(sys.stdin.read())
    from .backend import RealBackend
    from .harness import Goals, _load_scenario, run_scenario

    B = RealBackend(req.get("theta") or {})
    G = Goals(B, None)
    fn = _load_scenario(req["module"], req["scenario"])
    try:
        run_scenario(fn, B, G, req["kwargs"])
    except Exception as e:  # noqa: BLE001
        print(json.dumps(dict(error="%s: %s\n%s" % (type(e).__name__, e, traceback.format_exc()[-1500:]))))
        return 0
    print(json.dumps(dict(evals=G.evals, theta=B.theta)))
    return 0


if __name__ == "__main__":
    sys.exit(main())
