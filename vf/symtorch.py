"""symtorch: a pure-Python stand-in for the subset of the torch API that QuCumber uses.

It is installed as ``sys.modules['torch']`` *before* qucumber is imported from the repository
under test, so that QuCumber's own, unmodified source runs on tensors whose entries are exact
rationals (``Fraction``) or symbolic reals (``vf.sym.Sym``).  Float tensors are numpy *object*
arrays (numpy supplies views / broadcasting / fancy indexing / einsum semantics), integer and
boolean tensors are ordinary numpy arrays.

Every primitive is modelled by its exact real-number meaning (DESIGN.md 1.2).  Anything not
implemented raises UnsupportedOp, which a check reports as "cannot be encoded" (exit 2).
"""
import sys
import types
import math
import copy as _copy
import builtins as _b
from fractions import Fraction
import numpy as np
from . import sym as S

__version__ = "2.14.0+symtorch"


class UnsupportedOp(Exception):
    pass


class dtype:
    def __init__(self, name, kind):
        self.name, self.kind = name, kind

    def __repr__(self):
        return "torch." + self.name

    @property
    def is_floating_point(self):
        return self.kind == "f"


double = float64 = dtype("float64", "f")
float32 = float = dtype("float32", "f")  # noqa: A001
long = int64 = dtype("int64", "i")
int32 = int = dtype("int32", "i")  # noqa: A001
uint8 = dtype("uint8", "i")
bool = dtype("bool", "b")  # noqa: A001
_pybool = (1 == 1).__class__
_pyint = (1).__class__
_pyfloat = (1.0).__class__
_pyabs = abs
_pysum = sum
_pymax = max
_pymin = min

_default_dtype = float32


class device:
    def __init__(self, name="cpu"):
        if isinstance(name, device):
            name = name.type
        self.type = str(name)

    def __eq__(self, o):
        return isinstance(o, device) and o.type == self.type

    def __ne__(self, o):
        return not self == o

    def __hash__(self):
        return hash(self.type)

    def __repr__(self):
        return "device(type=%r)" % self.type

    def __str__(self):
        return self.type


_CPU = device("cpu")


class Size(tuple):
    def numel(self):
        n = 1
        for s in self:
            n *= s
        return n


class Q(Fraction):
    """exact rational that stays exact when QuCumber's numpy code combines it with Python complex literals
    (`re + 1j * im`): Fraction * 1j would silently become a float complex"""

    def _c(self, o):
        return S.SymC(Fraction(o.real), Fraction(o.imag))

    def __mul__(self, o):
        if isinstance(o, complex):
            return S.SymC(Fraction(self)) * self._c(o)
        return Fraction.__mul__(self, o)

    def __rmul__(self, o):
        if isinstance(o, complex):
            return self._c(o) * S.SymC(Fraction(self))
        return Fraction.__rmul__(self, o)

    def __add__(self, o):
        if isinstance(o, complex):
            return S.SymC(Fraction(self)) + self._c(o)
        return Fraction.__add__(self, o)

    def __radd__(self, o):
        if isinstance(o, complex):
            return self._c(o) + S.SymC(Fraction(self))
        return Fraction.__radd__(self, o)

    def __sub__(self, o):
        if isinstance(o, complex):
            return S.SymC(Fraction(self)) - self._c(o)
        return Fraction.__sub__(self, o)

    def __rsub__(self, o):
        if isinstance(o, complex):
            return self._c(o) - S.SymC(Fraction(self))
        return Fraction.__rsub__(self, o)


def _q(x):
    return Q(x) if type(x) is Fraction else x


class SymArray(np.ndarray):
    """what Tensor.numpy() returns for float tensors (object ndarray; .real/.imag elementwise)"""


def _r32(x):
    """single-precision storage rounds concrete values (symbolic entries are exact reals)"""
    if type(x) is Fraction or isinstance(x, Fraction):
        if x.denominator == 1 and _pyabs(x.numerator) < 16777216:
            return x
        return Fraction(_pyfloat(np.float32(_pyfloat(x))))
    return x


def _round32(arr):
    return _map1(_r32, arr)


def _lift_arr(x):
    a = np.asarray(x, dtype=object) if not isinstance(x, np.ndarray) else x
    out = np.empty(a.shape, dtype=object)
    fi, fo = a.reshape(-1), out.reshape(-1)
    for i in range(fi.shape[0]):
        fo[i] = S.lift(fi[i])
    return out


def _arr(r):
    if isinstance(r, np.ndarray):
        return np.asarray(r)
    r0 = np.empty((), dtype=object)
    r0[()] = r
    return r0


def _full(shape, val):
    a = np.empty(shape, dtype=object)
    a[...] = val
    return a


def _map1(f, arr):
    return _arr(np.frompyfunc(f, 1, 1)(arr))


def _map2(f, a, b):
    return _arr(np.frompyfunc(f, 2, 1)(a, b))


def _sigmoid(x):
    e = S.fn("exp", x)
    return S.div(e, S.add(1, e))


def _round(x):
    if not isinstance(x, Fraction):
        raise S.SymbolicTruthValue("round of a symbolic value")
    return Fraction(round(x))


def _toint(x):
    if isinstance(x, Fraction):
        return _pyint(x)  # truncation towards zero, like torch
    if isinstance(x, (_pyint, np.integer, _pybool, np.bool_)):
        return _pyint(x)
    raise S.SymbolicTruthValue("integer conversion of a symbolic value")


def _tobool(x):
    if isinstance(x, Fraction):
        return x != 0
    if isinstance(x, (_pyint, np.integer, _pybool, np.bool_)):
        return _pybool(x)
    if isinstance(x, S.Sym) and not S.variables([x]):
        fx = S.evalf(x, {})  # a closed constant such as 1/sqrt(2)
        if _pyabs(fx) > 1e-9:
            return True
    raise S.SymbolicTruthValue("boolean conversion of a symbolic value")


def _dims(d):
    if isinstance(d, (list, Size)):
        return tuple(d)
    return d


class Tensor:
    __array_priority__ = 2000
    __array_ufunc__ = None

    def __init__(self, data=None, _raw=None, dtype=None):
        """Legacy constructor torch.Tensor(data): always a float32 tensor."""
        if _raw is not None:
            self.a = _raw
            if dtype is None:
                k = _raw.dtype.kind
                dtype = double if k == "O" else (bool if k == "b" else long)
        else:
            if data is None:
                data = []
            if isinstance(data, Tensor):
                data = data.a
            self.a = _lift_arr(np.asarray(data))
            dtype = _default_dtype
            if dtype is float32:
                self.a = _round32(self.a)
        self.dtype = dtype
        self.device = _CPU
        self.grad = None
        self.requires_grad = False
        self._version = 0  # bumped by in-place operations on this object (views are not tracked)

    # -- structure --------------------------------------------------------------------------
    def _new(self, a, dtype=None):
        return Tensor(_raw=a, dtype=dtype or self.dtype)

    @property
    def shape(self):
        return Size(self.a.shape)

    def size(self, d=None):
        return Size(self.a.shape) if d is None else self.a.shape[d]

    def dim(self):
        return self.a.ndim

    ndimension = dim

    @property
    def ndim(self):
        return self.a.ndim

    def numel(self):
        return _pyint(self.a.size)

    def __len__(self):
        if self.a.ndim == 0:
            raise TypeError("len() of a 0-d tensor")
        return self.a.shape[0]

    def __iter__(self):
        for i in range(len(self)):
            yield self[i]

    @property
    def data(self):
        t = self._new(self.a)
        return t

    @data.setter
    def data(self, v):
        self.a = v.a

    @property
    def is_cuda(self):
        return False

    def get_device(self):
        return -1

    def detach(self):
        return self._new(self.a)

    def cpu(self):
        return self

    def data_ptr(self):
        # address of the first element: equal for a tensor and its aliases / views that start at the same element
        return int(self.a.__array_interface__["data"][0])

    def contiguous(self):
        # torch returns self for a contiguous tensor and a fresh copy otherwise (e.g. after t() / transpose)
        if self.a.flags["C_CONTIGUOUS"]:
            return self
        return self._new(np.ascontiguousarray(self.a))

    def is_floating_point(self):
        return self.dtype.kind == "f"

    def numpy(self):
        if self.a.dtype == object:
            return _map1(_q, self.a).view(SymArray)
        return self.a

    def tolist(self):
        return self.a.tolist()

    def __array__(self, dtype=None, copy=None):
        # lets numpy arrays be indexed by integer / boolean tensors, as with real torch
        if self.a.dtype == object:
            raise TypeError("symbolic float tensor cannot be converted to a numpy array implicitly (use .numpy())")
        return self.a if dtype is None else self.a.astype(dtype)

    def to(self, *args, **kw):
        dt = kw.get("dtype")
        for x in args:
            if isinstance(x, Tensor):
                dt = x.dtype
            elif isinstance(x, dtype):
                dt = x
        if dt is not None and dt is not self.dtype:
            return self._cast(dt)
        return self

    def type_as(self, o):
        return self.to(o)

    def _cast(self, dt):
        if dt.kind == "f":
            arr = self.a.copy() if self.dtype.kind == "f" else _lift_arr(self.a)
            if dt is float32:
                arr = _round32(arr)
            return Tensor(_raw=arr, dtype=dt)
        flat = self.a.reshape(-1)
        if dt.kind == "i":
            vals = np.asarray([_toint(x) for x in flat], dtype=np.int64).reshape(self.a.shape)
            return Tensor(_raw=vals, dtype=dt)
        if dt.kind == "b":
            vals = np.asarray([_tobool(x) for x in flat], dtype=np.bool_).reshape(self.a.shape)
            return Tensor(_raw=vals, dtype=dt)
        raise UnsupportedOp("cast to %r" % dt)

    def int(self):
        return self._cast(int32)

    def long(self):
        return self._cast(long)

    def double(self):
        return self.to(dtype=double)

    def float(self):
        return self.to(dtype=float32)

    def bool(self):
        return self._cast(bool)

    def round(self):
        return self._new(_map1(_round, self.a))

    def clone(self):
        return self._new(self.a.copy())

    def copy_(self, o):
        self.a[...] = o.a if o.dtype.kind == self.dtype.kind else o._cast(self.dtype).a
        self._version += 1
        return self

    def repeat(self, *reps):
        reps = _dims(reps[0]) if len(reps) == 1 and isinstance(reps[0], (tuple, list)) else reps
        return self._new(np.tile(self.a, reps))

    def unsqueeze(self, d):
        return self._new(np.expand_dims(self.a, d))

    def unsqueeze_(self, d):
        self.a = np.expand_dims(self.a, d)
        return self

    def squeeze(self, d=None):
        if d is None:
            return self._new(np.squeeze(self.a))
        if self.a.shape[d] == 1:
            return self._new(np.squeeze(self.a, d))
        return self._new(self.a)

    def squeeze_(self, d=None):
        if d is None:
            self.a = np.squeeze(self.a)
        elif self.a.ndim > 0 and self.a.shape[d] == 1:
            self.a = np.squeeze(self.a, d)
        return self

    def t(self):
        if self.a.ndim > 2:
            raise RuntimeError("t() expects a tensor with <= 2 dimensions")
        return self._new(self.a.T)

    def transpose(self, i, j):
        return self._new(np.swapaxes(self.a, i, j))

    def permute(self, *dims):
        dims = _dims(dims[0]) if len(dims) == 1 and isinstance(dims[0], (tuple, list)) else dims
        return self._new(np.transpose(self.a, dims))

    def view(self, *shape):
        if len(shape) == 1 and isinstance(shape[0], (tuple, list)):
            shape = tuple(shape[0])
        return self._new(self.a.reshape(tuple(_pyint(s) for s in shape)))

    reshape = view

    def flatten(self):
        return self._new(self.a.reshape(-1))

    def expand(self, *shape):
        if len(shape) == 1 and isinstance(shape[0], (tuple, list)):
            shape = tuple(shape[0])
        nd = len(shape)
        cur = (1,) * (nd - self.a.ndim) + self.a.shape
        tgt = tuple(c if s == -1 else _pyint(s) for s, c in zip(shape, cur))
        if tgt == cur:
            # nothing is actually broadcast: torch returns a (writable, contiguous) view of the same storage
            return self._new(self.a.reshape(cur))
        return self._new(np.broadcast_to(self.a.reshape(cur), tgt))  # read-only, like torch's refusal of in-place writes

    def expand_as(self, o):
        return self.expand(*o.shape)

    def log1p(self):
        return (self + 1).log()

    def new_zeros(self, *shape, dtype=None, device=None):
        return zeros(*shape, dtype=dtype or self.dtype)

    def new_empty(self, *shape, dtype=None, device=None):
        return zeros(*shape, dtype=dtype or self.dtype)

    def new_ones(self, *shape, dtype=None, device=None):
        return ones(*shape, dtype=dtype or self.dtype)

    def new_tensor(self, data, dtype=None, device=None):
        return tensor(data, dtype=dtype or self.dtype)

    def new_full(self, shape, fill, dtype=None, device=None):
        return zeros(*shape, dtype=dtype or self.dtype) + fill

    def addmv(self, m, v, beta=1, alpha=1):
        return self * beta + mv(m, v) * alpha

    def addmv_(self, m, v, beta=1, alpha=1):
        return self._inplace(self * beta + mv(m, v) * alpha)

    def fmod(self, o):
        return fmod(self, o)

    def __getattr__(self, name):
        # (only reached for names the class does not define)
        if name.startswith("__") or name in ("a", "dtype", "grad", "_version", "requires_grad"):
            raise AttributeError(name)
        raise UnsupportedOp("Tensor.%s is not modelled by symtorch" % name)

    def _intop(self, o, f, what):
        ob = o.a if isinstance(o, Tensor) else o
        if self.a.dtype == object or (isinstance(ob, np.ndarray) and ob.dtype == object):
            raise UnsupportedOp("bitwise %s on a non-integer tensor" % what)
        return Tensor(_raw=_arr(f(self.a, ob)), dtype=self.dtype)

    def nonzero(self, as_tuple=False):
        if self.a.dtype == object:
            if _b.any(isinstance(v, (S.Sym, S.SymC)) for v in self.a.reshape(-1)):
                raise UnsupportedOp("nonzero of a tensor with symbolic entries")
            mask = np.frompyfunc(lambda v: v != 0, 1, 1)(self.a).astype(bool)
        else:
            mask = self.a != 0
        idx = np.argwhere(mask).astype(np.int64)
        if as_tuple:
            return tuple(Tensor(_raw=idx[:, k].copy(), dtype=int64) for k in range(idx.shape[1]))
        return Tensor(_raw=idx, dtype=int64)

    def __invert__(self):
        if self.a.dtype == object:
            raise UnsupportedOp("bitwise ~ on a non-integer tensor")
        return Tensor(_raw=_arr(np.invert(self.a)), dtype=self.dtype)

    def __xor__(self, o):
        return self._intop(o, np.bitwise_xor, "^")

    def __rshift__(self, o):
        return self._intop(o, np.right_shift, ">>")

    def __lshift__(self, o):
        return self._intop(o, np.left_shift, "<<")

    def __and__(self, o):
        return self._intop(o, np.bitwise_and, "&")

    def __or__(self, o):
        return self._intop(o, np.bitwise_or, "|")

    def __rand__(self, o):
        return self._intop(o, lambda a, b: np.bitwise_and(b, a), "&")

    def prod(self, dim=None, keepdim=False):
        a = self.a if self.a.dtype == object or self.dtype.kind != "f" else _lift_arr(self.a)
        if dim is None:
            r = Fraction(1) if a.dtype == object else 1
            for x in a.reshape(-1):
                r = r * x
            return Tensor(_raw=_arr(r), dtype=self.dtype)
        r = np.multiply.reduce(a, axis=dim, keepdims=keepdim)
        return Tensor(_raw=_arr(r), dtype=self.dtype)

    def sign(self):
        def sg(x):
            if isinstance(x, (S.Sym, S.SymC)):
                raise UnsupportedOp("sign of a symbolic value")
            return Fraction((x > 0) - (x < 0)) if isinstance(x, Fraction) else (x > 0) - (x < 0)
        return self._new(_map1(sg, self.a))

    def addmm_(self, m1, m2, beta=1, alpha=1):
        return self._inplace(self * beta + matmul(m1, m2) * alpha)

    def addmm(self, m1, m2, beta=1, alpha=1):
        return self * beta + matmul(m1, m2) * alpha

    def repeat_interleave(self, repeats, dim=None):
        return repeat_interleave(self, repeats, dim)

    def log1p_(self):
        return self._inplace(self.log1p())

    def remainder(self, o):
        return remainder(self, o)

    def addcmul_(self, t1, t2, value=1):
        return self._inplace(self + (t1 * t2) * value)

    def addcmul(self, t1, t2, value=1):
        return self + (t1 * t2) * value

    def addcdiv_(self, t1, t2, value=1):
        return self._inplace(self + (t1 / t2) * value)

    def chunk(self, chunks, dim=0):
        return chunk(self, chunks, dim)

    def split(self, size, dim=0):
        return split(self, size, dim)

    def logaddexp(self, o):
        return logaddexp(self, o)

    def unique(self, **kw):
        return unique(self, **kw)

    def __getitem__(self, idx):
        return self._new(self.a[_idx(idx)])

    def __setitem__(self, idx, val):
        if isinstance(val, Tensor):
            v = val.a
            if self.dtype.kind == "f" and val.dtype.kind != "f":
                v = _lift_arr(v)
        elif self.dtype.kind == "f":
            v = S.lift(val)
        else:
            v = val
        self.a[_idx(idx)] = v
        self._version += 1

    def __eq__(self, o):
        ob = o.a if isinstance(o, Tensor) else o
        return Tensor(_raw=np.asarray(_cmp(self.a, ob, "eq"), dtype=np.bool_), dtype=bool)

    def __ne__(self, o):
        ob = o.a if isinstance(o, Tensor) else o
        return Tensor(_raw=np.asarray(_cmp(self.a, ob, "ne"), dtype=np.bool_), dtype=bool)

    def __lt__(self, o):
        return self._order(o, "lt")

    def __le__(self, o):
        return self._order(o, "le")

    def __gt__(self, o):
        return self._order(o, "gt")

    def __ge__(self, o):
        return self._order(o, "ge")

    def _order(self, o, op):
        ob = o.a if isinstance(o, Tensor) else o
        return Tensor(_raw=np.asarray(_cmp(self.a, ob, op), dtype=np.bool_), dtype=bool)

    __hash__ = None

    def __bool__(self):
        if self.a.size != 1:
            raise RuntimeError("Boolean value of Tensor with more than one value is ambiguous")
        return _tobool(self.a.reshape(-1)[0])

    def __float__(self):
        x = self.item()
        if isinstance(x, S.Sym):
            raise S.SymbolicTruthValue("float() of a symbolic tensor")
        return _pyfloat(x)

    def __int__(self):
        return _toint(self.item())

    __index__ = __int__

    def __repr__(self):
        return "symtensor(%s, dtype=%r)" % (np.array2string(self.a, threshold=20), self.dtype)

    def __format__(self, spec):
        x = self.item()
        if isinstance(x, S.Sym):
            return "<sym>"
        return format(_pyfloat(x), spec)

    # -- arithmetic -------------------------------------------------------------------------
    def _coerce(self, o):
        if isinstance(o, Tensor):
            return o.a, o.dtype
        if isinstance(o, (S.Sym, Fraction)):
            return o, double
        if isinstance(o, (_pybool, np.bool_)):
            return _pyint(o), long
        if isinstance(o, (_pyint, np.integer)):
            return _pyint(o), long
        if isinstance(o, (_pyfloat, np.floating)):
            return S.lift(o), double
        if isinstance(o, np.ndarray):
            raise TypeError("unsupported operand: numpy array with Tensor")
        raise TypeError("unsupported operand type for Tensor arithmetic: %r" % type(o))

    def _bin(self, o, f, reverse=False, force_float=False):
        ob, odt = self._coerce(o)
        a = self.a
        isf = self.dtype.kind == "f" or odt.kind == "f" or force_float
        if isf:
            if a.dtype != object:
                a = _lift_arr(a)
            if isinstance(ob, np.ndarray):
                if ob.dtype != object:
                    ob = _lift_arr(ob)
            else:
                ob = S.lift(ob)
            rd = self.dtype if self.dtype.kind == "f" else (odt if odt.kind == "f" else _default_dtype)
        else:
            rd = self.dtype if self.dtype.kind == "i" else odt
            if a.dtype == np.bool_:
                a = a.astype(np.int64)
        r = _arr(f(ob, a) if reverse else f(a, ob))
        if rd is float32:
            r = _round32(r)
        return Tensor(_raw=r, dtype=rd)

    def __add__(self, o):
        return self._bin(o, np.add)

    def __radd__(self, o):
        return self._bin(o, np.add, reverse=True)

    def __sub__(self, o):
        return self._bin(o, np.subtract)

    def __rsub__(self, o):
        return self._bin(o, np.subtract, reverse=True)

    def __mul__(self, o):
        return self._bin(o, np.multiply)

    def __rmul__(self, o):
        return self._bin(o, np.multiply, reverse=True)

    def __truediv__(self, o):
        return self._bin(o, np.true_divide, force_float=True)

    def __rtruediv__(self, o):
        return self._bin(o, np.true_divide, reverse=True, force_float=True)

    def __neg__(self):
        return self._new(_arr(-self.a))

    def __pos__(self):
        return self

    def __pow__(self, k):
        if isinstance(k, Tensor):
            if k.a.size != 1:
                raise UnsupportedOp("tensor ** tensor")
            k = k.item()
        if self.dtype.kind != "f":
            return self._new(self.a ** _pyint(k))
        return self._new(_map1(lambda x: S.power(x, k), self.a))

    def __rpow__(self, base):
        if self.dtype.kind != "f":
            return Tensor(_raw=np.asarray(base) ** self.a, dtype=self.dtype)
        return self._new(_map1(lambda x: S.power(S.lift(base), _toint(x)), self.a))

    def __abs__(self):
        return self.abs()

    def __matmul__(self, o):
        return matmul(self, o)

    def _inplace(self, r):
        if r.dtype.kind == "f" and self.dtype.kind != "f":
            raise RuntimeError("result type Float can't be cast to the desired output type Long")
        self.a[...] = _round32(r.a) if self.dtype is float32 and r.a.dtype == object else r.a
        self._version += 1
        return self

    def add_(self, o, alpha=None):
        if alpha is not None:
            o = o * alpha
        return self._inplace(self + o)

    def sub_(self, o, alpha=None):
        if alpha is not None:
            o = o * alpha
        return self._inplace(self - o)

    def mul_(self, o):
        return self._inplace(self * o)

    def div_(self, o):
        return self._inplace(self / o)

    def pow_(self, k):
        return self._inplace(self ** k)

    def neg_(self):
        return self._inplace(-self)

    def zero_(self):
        self.a[...] = Fraction(0) if self.dtype.kind == "f" else 0
        return self

    def fill_(self, v):
        self.a[...] = S.lift(v) if self.dtype.kind == "f" else v
        return self

    def abs(self):
        if self.dtype.kind != "f":
            return self._new(np.abs(self.a))
        return self._new(_map1(lambda x: S.fn("abs", x), self.a))

    def abs_(self):
        return self._inplace(self.abs())

    def sqrt(self):
        return self._fmap(lambda x: S.fn("sqrt", x))

    def sqrt_(self):
        return self._inplace(self.sqrt())

    def sigmoid(self):
        return self._fmap(_sigmoid)

    def sigmoid_(self):
        return self._inplace(self.sigmoid())

    def clamp(self, min=None, max=None):
        return self._fmap(lambda x: S.clamp(x, min, max))

    def clamp_(self, min=None, max=None):
        return self._inplace(self.clamp(min=min, max=max))

    __iadd__ = add_
    __isub__ = sub_
    __imul__ = mul_
    __itruediv__ = div_

    def mul(self, o):
        return self * o

    def sub(self, o):
        return self - o

    def add(self, o):
        return self + o

    def div(self, o):
        return self / o

    def pow(self, k):
        return self ** k

    def neg(self):
        return -self

    def matmul(self, o):
        return matmul(self, o)

    def dot(self, o):
        return dot(self, o)

    def _fl(self):
        return self.a if self.a.dtype == object else _lift_arr(self.a)

    def _fmap(self, f):
        return Tensor(_raw=_map1(f, self._fl()), dtype=self.dtype if self.dtype.kind == "f" else _default_dtype)

    def sum(self, dim=None, keepdim=False):
        a = self.a
        if a.dtype == np.bool_:
            a = a.astype(np.int64)
        if a.dtype == object and a.size == 0:
            r = _full(np.sum(np.zeros(a.shape), axis=_dims(dim), keepdims=keepdim).shape, Fraction(0))
        else:
            r = a.sum(axis=_dims(dim), keepdims=keepdim)
        return Tensor(_raw=_arr(r), dtype=self.dtype if self.dtype.kind != "b" else long)

    def mean(self, dim=None, keepdim=False):
        if self.dtype.kind != "f":
            raise RuntimeError("mean(): input dtype should be floating point")
        d = _dims(dim)
        if d is None:
            n = self.a.size
        elif isinstance(d, tuple):
            n = 1
            for k in d:
                n *= self.a.shape[k]
        else:
            n = self.a.shape[d]
        return self.sum(dim, keepdim) / n

    def var(self, unbiased=True):
        return var_mean(self, unbiased=unbiased)[0]

    def all(self, dim=None):
        vals = np.frompyfunc(_tobool, 1, 1)(self.a).astype(np.bool_) if self.a.dtype == object else self.a.astype(np.bool_)
        return Tensor(_raw=_arr(np.all(vals, axis=dim)), dtype=bool)

    def any(self, dim=None):
        vals = np.frompyfunc(_tobool, 1, 1)(self.a).astype(np.bool_) if self.a.dtype == object else self.a.astype(np.bool_)
        return Tensor(_raw=_arr(np.any(vals, axis=dim)), dtype=bool)

    def exp(self):
        return self._fmap(lambda x: S.fn("exp", x))

    def log(self):
        return self._fmap(lambda x: S.fn("log", x))

    def cos(self):
        return self._fmap(lambda x: S.fn("cos", x))

    def sin(self):
        return self._fmap(lambda x: S.fn("sin", x))

    def atan(self):
        return atan(self)

    def exp_(self):
        return self._inplace(self.exp())

    def log_(self):
        return self._inplace(self.log())

    def cos_(self):
        return self._inplace(self.cos())

    def sin_(self):
        return self._inplace(self.sin())

    def roll(self, shifts, dims=None):
        return roll(self, shifts, dims)

    def max(self, dim=None):
        if dim is not None:
            raise UnsupportedOp("max over a dimension")
        return _reduce_minmax(self, True)

    def min(self, dim=None):
        if dim is not None:
            raise UnsupportedOp("min over a dimension")
        return _reduce_minmax(self, False)

    def logsumexp(self, dim, keepdim=False):
        return self.exp().sum(dim, keepdim).log()

    def item(self):
        if self.a.size != 1:
            raise RuntimeError("a Tensor with %d elements cannot be converted to Scalar" % self.a.size)
        x = self.a.reshape(-1)[0]
        if isinstance(x, (np.integer,)):
            return _pyint(x)
        if isinstance(x, np.bool_):
            return _pybool(x)
        return x

    def __deepcopy__(self, memo):
        r = self.__class__.__new__(self.__class__)
        memo[id(self)] = r
        r.a = self.a.copy()
        r.dtype = self.dtype
        r.device = self.device
        r.grad = _copy.deepcopy(self.grad, memo)
        r.requires_grad = self.requires_grad
        r._version = 0
        return r


def _cmp(a, b, op):
    def one(x, y):
        if isinstance(x, S.Sym) or isinstance(y, S.Sym):
            if op == "eq" and x is y:
                return True
            if not S.variables([v for v in (x, y) if isinstance(v, S.Sym)]):
                # closed constants (1/sqrt(2), ...): decided numerically unless they are too close to call
                fx = S.evalf(x, {}) if isinstance(x, S.Sym) else _pyfloat(x)
                fy = S.evalf(y, {}) if isinstance(y, S.Sym) else _pyfloat(y)
                if _pyabs(fx - fy) > 1e-9 * (1 + _pyabs(fx) + _pyabs(fy)):
                    return {"eq": False, "ne": True, "lt": fx < fy, "le": fx < fy, "gt": fx > fy, "ge": fx > fy}[op]
            raise S.SymbolicTruthValue("comparison of symbolic tensor entries")
        if op == "eq":
            return x == y
        if op == "ne":
            return x != y
        if op == "lt":
            return x < y
        if op == "le":
            return x <= y
        if op == "gt":
            return x > y
        return x >= y

    if isinstance(a, np.ndarray) and a.dtype != object and not (isinstance(b, np.ndarray) and b.dtype == object) and not isinstance(b, (S.Sym,)):
        bb = b
        if isinstance(b, Fraction):
            bb = _pyfloat(b) if b.denominator != 1 else _pyint(b)
        return {"eq": np.equal, "ne": np.not_equal, "lt": np.less, "le": np.less_equal, "gt": np.greater, "ge": np.greater_equal}[op](a, bb)
    if isinstance(b, (_pyfloat, np.floating)):
        b = Fraction(_pyfloat(b))
    return np.frompyfunc(one, 2, 1)(a, b)


def _idx(idx):
    if isinstance(idx, tuple):
        return tuple(_idx(i) for i in idx)
    if isinstance(idx, Tensor):
        if idx.a.dtype == object:
            return np.asarray([_toint(x) for x in idx.a.reshape(-1)], dtype=np.int64).reshape(idx.a.shape)
        return idx.a
    if isinstance(idx, list):
        return [_idx(i) for i in idx]
    return idx


# -- factories ---------------------------------------------------------------------------------
def _infer(data):
    """torch.tensor dtype inference: returns (array, dtype)"""
    if isinstance(data, Tensor):
        return data.a.copy(), data.dtype
    if isinstance(data, (list, tuple)) and len(data) > 0 and _b.all(isinstance(d, Tensor) for d in data):
        return np.stack([d.a for d in data]), data[0].dtype
    if isinstance(data, (list, tuple)) and _b.any(isinstance(d, np.ndarray) and d.dtype == object for d in data):
        return np.stack([np.asarray(d, dtype=object) for d in data]), double
    a = np.asarray(data)
    k = a.dtype.kind
    if k == "b":
        return a.copy(), bool
    if k in "iu":
        return a.astype(np.int64), (uint8 if a.dtype == np.uint8 else long)
    if k == "f":
        return _lift_arr(a), (float32 if a.dtype == np.float32 or not isinstance(data, np.ndarray) else double)
    if k == "O":
        flat = a.reshape(-1)
        if _b.all(isinstance(x, (_pyint, _pybool, np.integer)) for x in flat) and flat.size:
            return np.asarray([_pyint(x) for x in flat], dtype=np.int64).reshape(a.shape), long
        for x in flat:
            if isinstance(x, (complex, S.SymC)):
                raise TypeError("complex values are not supported by torch.tensor in this model")
        return _lift_arr(a), double
    if k == "c":
        raise TypeError("complex values are not supported by torch.tensor in this model")
    raise TypeError("torch.tensor: unsupported data of kind %r" % k)


def tensor(data, dtype=None, device=None, requires_grad=False):
    a, dt = _infer(data)
    t = Tensor(_raw=a, dtype=dt)
    if dtype is not None and dtype is not dt:
        t = t._cast(dtype)
    return t


def as_tensor(data, dtype=None, device=None):
    if isinstance(data, Tensor):
        return data.to(dtype=dtype) if dtype is not None else data
    return tensor(data, dtype=dtype)


def from_numpy(a):
    return tensor(a)


def _shape(shape):
    if len(shape) == 1 and isinstance(shape[0], (tuple, list)):
        return tuple(_pyint(s) for s in shape[0])
    return tuple(_pyint(s) for s in shape)


def zeros(*shape, dtype=None, device=None, requires_grad=False, out=None):
    dt = dtype or _default_dtype
    if dt.kind == "f":
        return Tensor(_raw=_full(_shape(shape), Fraction(0)), dtype=dt)
    return Tensor(_raw=np.zeros(_shape(shape), dtype=np.bool_ if dt.kind == "b" else np.int64), dtype=dt)


def ones(*shape, dtype=None, device=None):
    dt = dtype or _default_dtype
    if dt.kind == "f":
        return Tensor(_raw=_full(_shape(shape), Fraction(1)), dtype=dt)
    return Tensor(_raw=np.ones(_shape(shape), dtype=np.bool_ if dt.kind == "b" else np.int64), dtype=dt)


def zeros_like(x, dtype=None):
    return zeros(*x.shape, dtype=dtype or x.dtype)


def empty_like(x, dtype=None, device=None):
    return zeros(*x.shape, dtype=dtype or x.dtype)


def ones_like(x, dtype=None):
    return ones(*x.shape, dtype=dtype or x.dtype)


def empty(*shape, dtype=None, device=None):
    return zeros(*shape, dtype=dtype)


def eye(n, dtype=None, device=None):
    t = zeros(n, n, dtype=dtype)
    for i in range(n):
        t.a[i, i] = Fraction(1) if t.dtype.kind == "f" else 1
    return t


def arange(a, b=None, step=1, dtype=None, device=None):
    if b is None:
        a, b = 0, a
    return Tensor(_raw=np.arange(_pyint(a), _pyint(b), _pyint(step), dtype=np.int64), dtype=long)


# -- randomness: everything goes through RNG, which harnesses replace -------------------------
class _RNG:
    """Nondeterministic stubs.  Default: every draw is a fresh symbol / a scripted outcome."""

    def __init__(self):
        self.reset()

    def reset(self):
        self.counter = 0
        self.log = []  # (kind, detail) of every draw, in order
        self.seeds = []
        self.bernoulli_fn = None
        self.randn_fn = None
        self.randperm_fn = None
        self.randint_fn = None

    def fresh(self, prefix):
        self.counter += 1
        return "%s%d" % (prefix, self.counter)

    def randn(self, shape):
        if self.randn_fn is not None:
            return self.randn_fn(shape)
        base = self.fresh("randn")
        a = np.empty(shape, dtype=object)
        flat = a.reshape(-1)
        for i in range(flat.shape[0]):
            flat[i] = S.var("%s_%d" % (base, i))
        self.log.append(("randn", base, shape))
        return a

    def bernoulli(self, p):
        if self.bernoulli_fn is None:
            raise UnsupportedOp("torch.bernoulli without a harness stub")
        r = self.bernoulli_fn(p)
        self.log.append(("bernoulli", p, r))
        return r

    def randperm(self, n):
        if self.randperm_fn is None:
            raise UnsupportedOp("torch.randperm without a harness stub")
        r = self.randperm_fn(n)
        self.log.append(("randperm", n, r))
        return r

    def randint(self, high, size):
        if self.randint_fn is None:
            raise UnsupportedOp("torch.randint without a harness stub")
        r = self.randint_fn(high, size)
        self.log.append(("randint", high, r))
        return r


RNG = _RNG()


def manual_seed(seed):
    RNG.seeds.append(("cpu", seed))


def seed():
    """torch.seed(): re-seeds the generator from entropy and returns that seed"""
    RNG.seeds.append(("cpu", "entropy"))
    return 1234567


def initial_seed():
    return RNG.seeds[-1][1] if RNG.seeds else 0


def get_rng_state():
    return tensor([0])


def set_rng_state(state):
    RNG.seeds.append(("cpu", "state"))


def randn(*shape, dtype=None, device=None, requires_grad=False):
    return Tensor(_raw=RNG.randn(_shape(shape)), dtype=dtype or _default_dtype)


def bernoulli(p, out=None):
    r = RNG.bernoulli(p.a.copy())
    r = r.a if isinstance(r, Tensor) else r
    if r.dtype != object:
        r = _lift_arr(r)
    if out is not None:
        out.a[...] = r
        return out
    return Tensor(_raw=r, dtype=p.dtype)


def randperm(n, dtype=None, device=None):
    r = RNG.randperm(_pyint(n))
    return r if not isinstance(r, np.ndarray) else Tensor(_raw=r.astype(np.int64), dtype=long)


def randint(low, high=None, size=None, dtype=None, device=None):
    if high is None or isinstance(high, (tuple, list)):
        if isinstance(high, (tuple, list)):
            size = high
        low, high = 0, low
    if low != 0:
        raise UnsupportedOp("randint with low != 0")
    r = RNG.randint(_pyint(high), tuple(size))
    return r if not isinstance(r, np.ndarray) else Tensor(_raw=r.astype(np.int64), dtype=long)


# -- functions -----------------------------------------------------------------------------------
def _fa(x):
    return x.a if x.a.dtype == object else _lift_arr(x.a)


def _write_out(r, out):
    if out is not None:
        if out.a.shape != r.a.shape:
            # torch resizes `out` (with a deprecation warning when it had elements); same element count keeps the storage
            if out.a.size == r.a.size:
                out.a = out.a.reshape(r.a.shape)
            else:
                out.a = np.empty(r.a.shape, dtype=out.a.dtype)
        out.a[...] = r.a
        out._version += 1
        return out
    return r


def matmul(x, y, out=None):
    if x.a.ndim == 0 or y.a.ndim == 0:
        raise RuntimeError("both arguments to matmul need to be at least 1D")
    if x.dtype.kind == "f" or y.dtype.kind == "f":
        xa, ya = _fa(x), _fa(y)
        if xa.size == 0 or ya.size == 0:
            shp = np.matmul(np.zeros(xa.shape), np.zeros(ya.shape)).shape
            r = Tensor(_raw=_full(shp, Fraction(0)), dtype=x.dtype if x.dtype.kind == "f" else y.dtype)
        else:
            r = Tensor(_raw=_arr(np.matmul(xa, ya)), dtype=x.dtype if x.dtype.kind == "f" else y.dtype)
    else:
        r = Tensor(_raw=_arr(np.matmul(x.a, y.a)), dtype=x.dtype)
    return _write_out(r, out)


def mul(x, y, out=None):
    return _write_out(x * y, out)


def add(x, y, out=None):
    return _write_out(x + y, out)


def sub(x, y, out=None):
    return _write_out(x - y, out)


def div(x, y, out=None):
    return _write_out(x / y, out)


def mv(m, v):
    if m.a.ndim != 2 or v.a.ndim != 1:
        raise RuntimeError("mv: expected a matrix and a vector")
    return matmul(m, v)


def mm(a, b):
    if a.a.ndim != 2 or b.a.ndim != 2:
        raise RuntimeError("mm: expected two matrices")
    return matmul(a, b)


def dot(x, y):
    if x.a.ndim != 1 or y.a.ndim != 1:
        raise RuntimeError("1D tensors expected, but got %dD and %dD tensors" % (x.a.ndim, y.a.ndim))
    if x.a.shape != y.a.shape:
        raise RuntimeError("inconsistent tensor size in dot")
    return matmul(x, y)


def ger(x, y):
    if x.a.ndim != 1 or y.a.ndim != 1:
        raise RuntimeError("outer: expected 1D tensors")
    return Tensor(_raw=_arr(np.multiply.outer(_fa(x), _fa(y))), dtype=x.dtype)


outer = ger


def atan2(y, x):
    return Tensor(_raw=_map2(lambda p, q: S.fn("atan2", p, q), _fa(y), _fa(x)), dtype=y.dtype)


def atan(x):
    # atan(t) == atan2(t, 1) exactly
    return Tensor(_raw=_map1(lambda p: S.fn("atan2", p, Fraction(1)), _fa(x)), dtype=x.dtype)


def _mm2(p, q, want_max):
    if isinstance(p, S.Sym) or isinstance(q, S.Sym):
        # max(p,q) = (p + q + |p - q|) / 2 ; min with a minus sign
        d = S.fn("abs", S.sub(p, q))
        return S.mul(Fraction(1, 2), S.add(S.add(p, q), d if want_max else S.neg(d)))
    return (p if p >= q else q) if want_max else (p if p <= q else q)


def _reduce_minmax(x, want_max):
    flat = _fa(x).reshape(-1)
    if flat.size == 0:
        raise RuntimeError("max(): expected a non-empty tensor")
    r = flat[0]
    for v in flat[1:]:
        r = _mm2(r, v, want_max)
    return Tensor(_raw=_arr(r), dtype=x.dtype)


def max(x, other=None):  # noqa: A001
    if other is None:
        return x.max()
    return Tensor(_raw=_map2(lambda p, q: _mm2(p, q, True), _fa(x), _fa(other)), dtype=x.dtype)


def min(x, other=None):  # noqa: A001
    if other is None:
        return x.min()
    return Tensor(_raw=_map2(lambda p, q: _mm2(p, q, False), _fa(x), _fa(other)), dtype=x.dtype)


maximum = max
minimum = min


def where(cond, a, b):
    c = cond.a if isinstance(cond, Tensor) else np.asarray(cond)
    if c.dtype == object:
        c = np.frompyfunc(_tobool, 1, 1)(c).astype(np.bool_)
    aa = a.a if isinstance(a, Tensor) else S.lift(a)
    bb = b.a if isinstance(b, Tensor) else S.lift(b)
    dt = a.dtype if isinstance(a, Tensor) else (b.dtype if isinstance(b, Tensor) else double)
    if dt.kind == "f":
        if isinstance(aa, np.ndarray) and aa.dtype != object:
            aa = _lift_arr(aa)
        if isinstance(bb, np.ndarray) and bb.dtype != object:
            bb = _lift_arr(bb)
    return Tensor(_raw=_arr(np.where(c.astype(np.bool_), aa, bb)), dtype=dt)


def einsum(eq, *ts):
    if len(ts) == 1 and isinstance(ts[0], (list, tuple)):
        ts = tuple(ts[0])
    arrs = [_fa(t) for t in ts]
    if _b.any(a.size == 0 for a in arrs):
        shp = np.einsum(eq, *[np.zeros(a.shape) for a in arrs]).shape
        return Tensor(_raw=_full(shp, Fraction(0)), dtype=ts[0].dtype)
    return Tensor(_raw=_arr(np.einsum(eq, *arrs)), dtype=ts[0].dtype)


def cat(ts, dim=0):
    ts = list(ts)
    isf = _b.any(t.dtype.kind == "f" for t in ts)
    arrs = [(_fa(t) if isf else t.a) for t in ts]
    return Tensor(_raw=np.concatenate(arrs, axis=dim), dtype=next((t.dtype for t in ts if t.dtype.kind == "f"), ts[0].dtype))


def stack(ts, dim=0):
    ts = list(ts)
    isf = _b.any(t.dtype.kind == "f" for t in ts)
    arrs = [(_fa(t) if isf else t.a) for t in ts]
    return Tensor(_raw=np.stack(arrs, axis=dim), dtype=next((t.dtype for t in ts if t.dtype.kind == "f"), ts[0].dtype))


def sum(x, dim=None, keepdim=False):  # noqa: A001
    return x.sum(dim, keepdim)


def mean(x, dim=None):
    return x.mean(dim)


def exp(x, out=None):
    return _write_out(x.exp(), out)


def log(x, out=None):
    return _write_out(x.log(), out)


def cos(x, out=None):
    return _write_out(x.cos(), out)


def sin(x, out=None):
    return _write_out(x.sin(), out)


def sqrt(x, out=None):
    return _write_out(x.sqrt(), out)


def abs(x, out=None):  # noqa: A001
    return _write_out(x.abs(), out)


def sigmoid(x, out=None):
    return _write_out(x.sigmoid(), out)


def clamp(x, min=None, max=None):
    return x.clamp(min=min, max=max)


def var_mean(x, dim=None, unbiased=True, correction=None):
    if dim is not None:
        raise UnsupportedOp("var_mean with dim")
    n = x.a.size
    flat = _fa(x).reshape(-1)
    m = S.div(S.addn(flat), n) if n else S.lift(0)
    ss = S.addn(S.power(S.sub(v, m), 2) for v in flat)
    c = (1 if unbiased else 0) if correction is None else correction
    if n - c <= 0:
        # torch returns nan (with a warning) for the unbiased variance of a single value
        raise UndefinedValue("variance of %d value(s) with correction %d is NaN in torch" % (n, c))
    return Tensor(_raw=_arr(S.div(ss, n - c)), dtype=x.dtype), Tensor(_raw=_arr(m), dtype=x.dtype)


UndefinedValue = S.UndefinedValue  # torch would produce inf / NaN here (the real-arithmetic model has no value)


def log1p(x):
    return x.log1p()


def addmm(inp, m1, m2, beta=1, alpha=1, out=None):
    return _write_out(inp * beta + matmul(m1, m2) * alpha, out)


def sign(x):
    return x.sign()


def prod(x, dim=None, keepdim=False):
    return x.prod(dim, keepdim)


def repeat_interleave(x, repeats, dim=None):
    reps = repeats.a if isinstance(repeats, Tensor) else repeats
    if isinstance(reps, np.ndarray) and reps.dtype == object:
        raise UnsupportedOp("repeat_interleave with symbolic counts")
    reps = [_pyint(r) for r in np.asarray(reps).reshape(-1)] if isinstance(reps, np.ndarray) else _pyint(reps)
    a = x.a if dim is not None else x.a.reshape(-1)
    return x._new(np.repeat(a, reps, axis=0 if dim is None else dim))


def _rem(a, b):
    if isinstance(a, Fraction) and isinstance(b, Fraction):
        return a - b * (a / b).__floor__()  # Python / torch.remainder convention: the sign of the divisor
    return S.fn("remainder", a, b)


def remainder(x, y):
    x = x if isinstance(x, Tensor) else tensor(x)
    return x._bin(y, lambda p, q: _map2(_rem, p, q), force_float=True)


def _fmod(a, b):
    if isinstance(a, Fraction) and isinstance(b, Fraction):
        q = a / b
        n = q.__floor__() if q >= 0 else -((-q).__floor__())  # truncation towards zero: the C convention (sign of the dividend)
        return a - b * n
    return S.fn("fmod", a, b)


def fmod(x, y):
    x = x if isinstance(x, Tensor) else tensor(x)
    return x._bin(y, lambda p, q: _map2(_fmod, p, q), force_float=True)


def logaddexp(x, y, out=None):
    x = x if isinstance(x, Tensor) else tensor(x)
    return _write_out((x.exp() + (y.exp() if isinstance(y, Tensor) else tensor(y).exp())).log(), out)


def addmv(inp, m, v, beta=1, alpha=1, out=None):
    return _write_out(inp * beta + mv(m, v) * alpha, out)


def addcmul(x, t1, t2, value=1, out=None):
    return _write_out(x.addcmul(t1, t2, value=value), out)


def chunk(x, chunks, dim=0):
    n = x.a.shape[dim]
    size = -(-n // _pyint(chunks)) if n else 0
    out = []
    k = 0
    while k < n:
        idx = [slice(None)] * x.a.ndim
        idx[dim] = slice(k, k + size)
        out.append(x._new(x.a[tuple(idx)]))
        k += size
    return tuple(out) if out else (x._new(x.a),)


def split(x, size, dim=0):
    if not isinstance(size, _pyint):
        raise UnsupportedOp("torch.split with a list of sizes is not modelled by symtorch")
    n = x.a.shape[dim]
    out = []
    for k in range(0, n, size):
        idx = [slice(None)] * x.a.ndim
        idx[dim] = slice(k, k + size)
        out.append(x._new(x.a[tuple(idx)]))
    return tuple(out)


def unique(x, sorted=True, return_inverse=False, return_counts=False, dim=None):
    """concrete tensors only (rows of 0/1 outcomes, index vectors): values are compared exactly"""
    flat = x.a.reshape(-1)
    if _b.any(isinstance(v, (S.Sym, S.SymC)) for v in flat):
        raise UnsupportedOp("torch.unique of a tensor with symbolic entries")
    if dim is None:
        keys = [(v,) for v in flat]
        shape_tail = ()
    else:
        moved = np.moveaxis(x.a, dim, 0)
        keys = [tuple(r.reshape(-1)) for r in moved]
        shape_tail = moved.shape[1:]
    uniq = _b.sorted(set(keys))
    pos = {k: i for i, k in enumerate(uniq)}
    inv = np.array([pos[k] for k in keys], dtype=np.int64)
    cnt = np.bincount(inv, minlength=len(uniq)).astype(np.int64) if len(keys) else np.zeros((0,), dtype=np.int64)
    if dim is None:
        ua = np.empty((len(uniq),), dtype=x.a.dtype)
        for i, k in enumerate(uniq):
            ua[i] = k[0]
        inv = inv.reshape(x.a.shape)
    else:
        ua = np.empty((len(uniq),) + shape_tail, dtype=x.a.dtype)
        for i, k in enumerate(uniq):
            ua[i] = np.array(k, dtype=x.a.dtype).reshape(shape_tail)
        ua = np.moveaxis(ua, 0, dim)
    res = [x._new(ua)]
    if return_inverse:
        res.append(Tensor(_raw=inv, dtype=int64))
    if return_counts:
        res.append(Tensor(_raw=cnt, dtype=int64))
    return res[0] if len(res) == 1 else tuple(res)


def transpose(x, i, j):
    return x.transpose(i, j)


def diagonal(x, offset=0, dim1=0, dim2=1):
    return x._new(np.diagonal(x.a, offset=offset, axis1=dim1, axis2=dim2))


def roll(x, shifts, dims=None):
    # like torch: without dims the tensor is flattened, rolled and restored to its shape
    return x._new(np.roll(x.a, shifts, axis=dims))


def squeeze(x, d=None):
    return x.squeeze(d)


def unsqueeze(x, d):
    return x.unsqueeze(d)


def all(x):  # noqa: A001
    return x.all()


def equal(a, b):
    if a.a.shape != b.a.shape:
        return False
    fa, fb = a.a.reshape(-1), b.a.reshape(-1)
    for p, q in zip(fa, fb):
        if isinstance(p, S.Sym) or isinstance(q, S.Sym):
            if p is not q:
                return False
        elif p != q:
            return False
    return True


def is_tensor(x):
    return isinstance(x, Tensor)


def typename(x):
    return "torch." + type(x).__name__ if isinstance(x, Tensor) else type(x).__name__


def set_default_dtype(d):
    global _default_dtype
    _default_dtype = d


def get_default_dtype():
    return _default_dtype


class _Cuda:
    @staticmethod
    def is_available():
        return False

    @staticmethod
    def manual_seed(seed):
        RNG.seeds.append(("cuda", seed))


cuda = _Cuda()


# -- save / load: modelled by contract (a store holding structural deep copies) ----------------
class _Store:
    def __init__(self):
        self.files = {}
        self.enabled = False
        self.log = []

    def reset(self, enabled=True):
        self.files = {}
        self.enabled = enabled
        self.log = []


STORE = _Store()


def _snapshot(obj):
    if isinstance(obj, Tensor):
        t = Tensor(_raw=obj.a.copy(), dtype=obj.dtype)
        return t
    if isinstance(obj, dict):
        return type(obj)((k, _snapshot(v)) for k, v in obj.items()) if type(obj) is dict else {k: _snapshot(v) for k, v in obj.items()}
    if isinstance(obj, list):
        return [_snapshot(v) for v in obj]
    if isinstance(obj, tuple):
        return tuple(_snapshot(v) for v in obj)
    return _copy.deepcopy(obj)


def save(obj, f, **kw):
    if not STORE.enabled:
        raise UnsupportedOp("torch.save (no file-store model installed)")
    key = str(f)
    STORE.files[key] = _snapshot(obj)
    STORE.log.append(("save", key))


def load(f, map_location=None, **kw):
    if not STORE.enabled:
        raise UnsupportedOp("torch.load (no file-store model installed)")
    key = str(f)
    if key not in STORE.files:
        raise FileNotFoundError(key)
    STORE.log.append(("load", key))
    return _snapshot(STORE.files[key])


# -- nn -------------------------------------------------------------------------------------------
class Parameter(Tensor):
    def __init__(self, t=None, requires_grad=True):
        if t is None:
            t = zeros(0)
        Tensor.__init__(self, _raw=t.a, dtype=t.dtype)
        self.requires_grad = requires_grad

    def _new(self, a, dtype=None):
        return Tensor(_raw=a, dtype=dtype or self.dtype)

    def __repr__(self):
        return "Parameter(" + Tensor.__repr__(self) + ")"


class Module:
    def __init__(self, *a, **k):
        object.__setattr__(self, "_parameters", {})
        object.__setattr__(self, "_modules", {})
        object.__setattr__(self, "training", True)

    def __setattr__(self, name, value):
        params = self.__dict__.get("_parameters")
        if isinstance(value, Parameter):
            if params is None:
                raise AttributeError("cannot assign parameters before Module.__init__() call")
            self.__dict__.pop(name, None)
            params[name] = value
        elif params is not None and name in params:
            if value is not None:
                raise TypeError("cannot assign %r as parameter %r (torch.nn.Parameter or None expected)" % (type(value).__name__, name))
            params[name] = None
        elif isinstance(value, Module) and self.__dict__.get("_modules") is not None:
            self.__dict__["_modules"][name] = value
            object.__setattr__(self, name, value)
        else:
            object.__setattr__(self, name, value)

    def __getattr__(self, name):
        params = self.__dict__.get("_parameters")
        if params is not None and name in params:
            return params[name]
        raise AttributeError("'%s' object has no attribute '%s'" % (type(self).__name__, name))

    def __delattr__(self, name):
        if name in self._parameters:
            del self._parameters[name]
        else:
            object.__delattr__(self, name)

    def named_parameters(self, recurse=True):
        for k, v in self._parameters.items():
            if v is not None:
                yield k, v
        for mn, m in self._modules.items():
            for k, v in m.named_parameters():
                yield mn + "." + k, v

    def parameters(self, recurse=True):
        for _, v in self.named_parameters():
            yield v

    def state_dict(self):
        from collections import OrderedDict

        return OrderedDict((k, v.detach()) for k, v in self.named_parameters())

    def load_state_dict(self, sd, strict=True, assign=False):
        own = dict(self.named_parameters())
        missing = [k for k in own if k not in sd]
        unexpected = [k for k in sd if k not in own]
        errs = []
        if strict and missing:
            errs.append("Missing key(s) in state_dict: %s" % missing)
        if strict and unexpected:
            errs.append("Unexpected key(s) in state_dict: %s" % unexpected)
        for k, p in own.items():
            if k in sd:
                if tuple(sd[k].shape) != tuple(p.shape):
                    errs.append("size mismatch for %s" % k)
        if errs:
            raise RuntimeError("Error(s) in loading state_dict: " + "; ".join(errs))
        for k, p in own.items():
            if k in sd:
                if assign:
                    # torch wraps the given tensor as the new parameter: no copy, the storage is shared with the caller's tensor
                    self._parameters[k] = Parameter(sd[k])
                else:
                    p.a[...] = sd[k].a
                    p._version += 1

    def to(self, *a, **k):
        return self

    def cpu(self):
        return self

    def double(self):
        return self

    def train(self, mode=True):
        object.__setattr__(self, "training", mode)
        return self

    def eval(self):
        return self.train(False)

    def zero_grad(self):
        for p in self.parameters():
            p.grad = None

    def __call__(self, *a, **k):
        return self.forward(*a, **k)


def softplus(x, beta=1, threshold=20):
    if _pyfloat(beta) != 1.0:
        raise UnsupportedOp("softplus with beta != 1")
    if _pyfloat(threshold) >= 20:
        return (1 + x.exp()).log()  # torch switches to the identity above 20, where the two differ by < 2.1e-9
    thr = Fraction(_pyfloat(threshold))
    return x._fmap(lambda v: S.fn("softplus_thr", v, thr))


def linear(x, w, b=None):
    r = matmul(x, w.t())
    return r if b is None else r + b


def parameters_to_vector(ps):
    return cat([p.reshape(-1) for p in ps])


def vector_to_parameters(vec, ps):
    ptr = 0
    for p in ps:
        n = p.numel()
        p.a[...] = vec.a[ptr : ptr + n].reshape(p.a.shape)
        ptr += n


def clip_grad_norm_(parameters, max_norm, norm_type=2.0, error_if_nonfinite=False, foreach=None):
    """torch.nn.utils.clip_grad_norm_ for the 2-norm: grads *= clamp(max_norm / (total_norm + 1e-6), max=1)"""
    if isinstance(parameters, Tensor):
        parameters = [parameters]
    ps = [p for p in parameters if getattr(p, "grad", None) is not None]
    if _pyfloat(norm_type) != 2.0:
        raise UnsupportedOp("clip_grad_norm_ with norm_type %r" % (norm_type,))
    if not ps:
        return tensor(0.0)
    tot = None
    for p in ps:
        sq = (p.grad * p.grad).sum()
        tot = sq if tot is None else tot + sq
    total_norm = tot.sqrt()
    coef = (total_norm + 1e-6).__rtruediv__(max_norm).clamp(max=1.0)
    for p in ps:
        p.grad.mul_(coef)
    return total_norm


def _check_param_device(param, old_param_device):
    return -1


class Optimizer:
    def __init__(self, params, defaults=None):
        params = list(params)
        if len(params) == 0:
            raise ValueError("optimizer got an empty parameter list")
        if isinstance(params[0], dict):
            self.param_groups = [dict(g) for g in params]
            for g in self.param_groups:
                g["params"] = list(g["params"])
                for k, v in (defaults or {}).items():
                    g.setdefault(k, v)
        else:
            g = dict(defaults or {})
            g["params"] = params
            self.param_groups = [g]
        self.defaults = defaults or {}

    def zero_grad(self, set_to_none=True):
        for g in self.param_groups:
            for p in g["params"]:
                p.grad = None


class SGD(Optimizer):
    def __init__(self, params, lr=1e-3, momentum=0, dampening=0, weight_decay=0, nesterov=False, **kw):
        if momentum != 0 or weight_decay != 0 or nesterov:
            raise UnsupportedOp("SGD with momentum / weight decay")
        super().__init__(params, dict(lr=lr, momentum=momentum, weight_decay=weight_decay))

    def step(self, closure=None):
        for g in self.param_groups:
            lr = g["lr"]
            for p in g["params"]:
                if p.grad is None:
                    continue
                p.a[...] = (p._new(p.a) - p.grad * lr).a
                p._version += 1


class _LRScheduler:
    def __init__(self, optimizer, last_epoch=-1):
        self.optimizer = optimizer
        self.base_lrs = [g["lr"] for g in optimizer.param_groups]
        self.last_epoch = 0

    def step(self):
        self.last_epoch += 1
        for g, lr in zip(self.optimizer.param_groups, self.get_lr()):
            g["lr"] = lr


class StepLR(_LRScheduler):
    def __init__(self, optimizer, step_size, gamma=0.1, last_epoch=-1):
        self.step_size, self.gamma = step_size, gamma
        super().__init__(optimizer, last_epoch)

    def get_lr(self):
        return [b * S.lift(self.gamma) ** (self.last_epoch // self.step_size) for b in self.base_lrs]


class Bernoulli:
    """torch.distributions.Bernoulli(probs=p).sample(shape): a tape of initial-state outcomes"""

    def __init__(self, probs=None, logits=None):
        self.probs = probs

    def sample(self, sample_shape=()):
        shape = tuple(sample_shape)
        p = _full(shape, S.lift(self.probs))
        r = RNG.bernoulli(p)
        r = r.a if isinstance(r, Tensor) else r
        if r.dtype != object:
            r = _lift_arr(r)
        return Tensor(_raw=r, dtype=_default_dtype)


_EPS = {"float64": 2.220446049250313e-16, "float32": 1.1920928955078125e-07}


def probs_to_logits(probs, is_binary=False):
    eps = _EPS[probs.dtype.name]
    ps = probs.clamp(min=eps, max=1 - eps)
    if is_binary:
        return ps.log() - (1 - ps).log()
    return ps.log()


class _Finfo:
    def __init__(self, dt):
        self.eps = _EPS[dt.name]
        self.tiny = 2.2250738585072014e-308 if dt.name == "float64" else 1.1754943508222875e-38
        self.max = 1.7976931348623157e308 if dt.name == "float64" else 3.4028234663852886e38


def finfo(dt):
    return _Finfo(dt)


def install():
    """register this module (and the torch.* submodules QuCumber imports) in sys.modules"""
    me = sys.modules[__name__]
    if sys.modules.get("torch") is me:
        return me
    if "torch" in sys.modules:
        raise RuntimeError("real torch already imported in this process")
    class _Mod(types.ModuleType):
        def __getattr__(self, name):
            if name.startswith("__"):
                raise AttributeError(name)
            raise UnsupportedOp("%s.%s is not modelled by symtorch" % (self.__name__, name))

    types_ModuleType = _Mod
    nn = types_ModuleType("torch.nn")
    nn.Module, nn.Parameter = Module, Parameter
    F = types_ModuleType("torch.nn.functional")
    F.softplus, F.linear, F.sigmoid = softplus, linear, sigmoid
    nn.functional = F
    utils = types_ModuleType("torch.nn.utils")
    utils.parameters_to_vector = parameters_to_vector
    utils.clip_grad_norm_ = clip_grad_norm_
    utils.vector_to_parameters = vector_to_parameters
    cp = types_ModuleType("torch.nn.utils.convert_parameters")
    cp._check_param_device = _check_param_device
    cp.parameters_to_vector = parameters_to_vector
    cp.vector_to_parameters = vector_to_parameters
    utils.convert_parameters = cp
    nn.utils = utils
    optim = types_ModuleType("torch.optim")
    optim.SGD, optim.Optimizer = SGD, Optimizer
    lrs = types_ModuleType("torch.optim.lr_scheduler")
    lrs.StepLR = StepLR
    lrs._LRScheduler = _LRScheduler
    optim.lr_scheduler = lrs
    dist = types_ModuleType("torch.distributions")
    dutils = types_ModuleType("torch.distributions.utils")
    dutils.probs_to_logits = probs_to_logits
    dist.utils = dutils
    dist.Bernoulli = Bernoulli
    me.nn, me.optim, me.distributions = nn, optim, dist
    me.float = float32
    me.int = int32
    sys.modules.update(
        {
            "torch": me,
            "torch.nn": nn,
            "torch.nn.functional": F,
            "torch.nn.utils": utils,
            "torch.nn.utils.convert_parameters": cp,
            "torch.optim": optim,
            "torch.optim.lr_scheduler": lrs,
            "torch.distributions": dist,
            "torch.distributions.utils": dutils,
        }
    )
    return me


def __getattr__(name):
    if name.startswith("__"):
        raise AttributeError(name)
    raise UnsupportedOp("torch.%s is not modelled by symtorch" % name)
