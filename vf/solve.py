"""Goals over Sym DAGs -> normal forms -> z3 queries (DESIGN.md 1.3).

identity goal  a == b :  residual numerator  N_a*D_b - N_b*D_a  reduced modulo the square
relations; z3 (QF_NRA) is asked  relations /\\ generator constraints /\\ residual != 0.
  unsat  -> holds for every real value of every parameter
  sat    -> model = an exact point of the variety near the image of a rational parameter point
            theta; theta is the counterexample that is replayed on the real code
inequality / sign goals go to nlsat directly.
"""
import math
import random
import time
from fractions import Fraction
import z3
from . import sym as S
from .poly import Conv, Frac, Poly, Unsupported, BITS, EMASK


import os as _os

_DEBUG = bool(_os.environ.get("VERIF_DEBUG"))



# ---- second-solver cross-check ------------------------------------------------------------------------------------------
# every query answered by the z3 Python API in this process is logged as SMT-LIB text; at the end of the job the log is replayed
# through independent solver binaries (/usr/bin/z3 4.8.12, cvc5 1.0) in one incremental process each; a definite disagreement
# (sat vs unsat) makes the job inconclusive.
XLOG = []
XMAX_BYTES = 400000


def _chk(s):
    res = str(s.check())
    if len(XLOG) < 4000:
        try:
            txt = s.to_smt2()
        except Exception:  # noqa: BLE001
            txt = None
        if txt is not None and len(txt) <= XMAX_BYTES:
            XLOG.append((txt, res))
    return res


def cross_check(budget_s=30.0, per_query_ms=1000):
    """returns dict(queries, checked, agreed, second_unknown, disagreements, solvers, seconds)"""
    import os
    import shutil
    import subprocess
    import tempfile

    out = dict(queries=len(XLOG), checked=0, agreed=0, second_unknown=0, disagreements=[], solvers=[], seconds=0.0)
    if not XLOG:
        return out
    # identical texts are checked once
    uniq = {}
    for txt, res in XLOG:
        uniq.setdefault(txt, res)
    items = sorted(uniq.items(), key=lambda kv: len(kv[0]))
    t0 = time.time()
    d = tempfile.mkdtemp(prefix="xsolver.")
    try:
        path = os.path.join(d, "batch.smt2")
        with open(path, "w") as f:
            f.write("(set-logic ALL)\n")
            for txt, _ in items:
                f.write("(push 1)\n" + txt + "\n(pop 1)\n")
        cmds = []
        if os.path.exists("/usr/bin/z3"):
            cmds.append(("z3-4.8.12", ["/usr/bin/z3", "-t:%d" % per_query_ms, path]))
        if shutil.which("cvc5"):
            cmds.append(("cvc5-1.0", [shutil.which("cvc5"), "--incremental", "--tlimit-per=%d" % per_query_ms, path]))
        for name, cmd in cmds:
            todo = list(items)
            used = False
            while todo:
                left = budget_s / max(1, len(cmds)) - (time.time() - t0) + (0 if name == cmds[0][0] else budget_s / len(cmds))
                if left <= 1:
                    break
                with open(path, "w") as f:
                    f.write("(set-logic ALL)\n")
                    for txt, _ in todo:
                        f.write("(push 1)\n" + txt + "\n(pop 1)\n")
                try:
                    pr = subprocess.run(cmd, capture_output=True, text=True, timeout=left)
                    so = pr.stdout
                except subprocess.TimeoutExpired as e:
                    so = e.stdout.decode() if isinstance(e.stdout, bytes) else (e.stdout or "")
                lines = [l.strip() for l in so.splitlines() if l.strip() in ("sat", "unsat", "unknown") or l.startswith("(error")]
                nxt = []
                for k, ((txt, res), got) in enumerate(zip(todo, lines)):
                    if got.startswith("(error"):
                        # this solver cannot read query k (e.g. a construct of the other solver's printer): answers after an error
                        # line are out of step, so the rest is re-submitted without it
                        out["rejected"] = out.get("rejected", 0) + 1
                        nxt = todo[k + 1:]
                        break
                    used = True
                    out["checked"] += 1
                    if got == "unknown" or res == "unknown":
                        out["second_unknown"] += 1
                    elif got == res:
                        out["agreed"] += 1
                    else:
                        out["disagreements"].append("%s answered %s where the z3 API answered %s (query of %d bytes)" % (name, got, res, len(txt)))
                todo = nxt
            if used:
                out["solvers"].append(name)
    finally:
        shutil.rmtree(d, ignore_errors=True)
    out["seconds"] = round(time.time() - t0, 2)
    return out


class Inconclusive(Exception):
    pass


def _q(fr):
    fr = Fraction(fr)
    return z3.RatVal(fr.numerator, fr.denominator)


class Z3Ring:
    """z3 view of a poly.Ring: variables, relation and sign constraints"""

    def __init__(self, ring):
        self.ring = ring
        self.vars = {}

    def v(self, i):
        x = self.vars.get(i)
        if x is None:
            x = z3.Real(self.ring.names[i])
            self.vars[i] = x
        return x

    def poly(self, p):
        terms = []
        for m, c in p.t.items():
            f = [z3.RatVal(c, 1)] if c != 1 or m == 0 else []
            for i, e in self.ring.mono_items(m):
                f += [self.v(i)] * e
            terms.append(z3.Product(f) if len(f) > 1 else f[0])
        if not terms:
            return z3.RealVal(0)
        return z3.Sum(terms) if len(terms) > 1 else terms[0]

    def closure(self, vs):
        """variables reachable through relation polynomials"""
        out = set()
        todo = list(vs)
        while todo:
            i = todo.pop()
            if i in out:
                continue
            out.add(i)
            rel = self.ring.rel.get(i)
            if rel is not None:
                todo.extend(rel.variables())
        return out

    def relaxed(self, vs):
        """sign / range constraints only (no relations): a sound relaxation for `unsat` answers"""
        cs = []
        for i in sorted(vs):
            k = self.ring.kind[i]
            x = self.v(i)
            if k == "E":
                cs.append(x > 0)
            elif k == "R":
                cs.append(x >= 0)
            elif k in ("C", "S"):
                cs.append(x >= -1)
                cs.append(x <= 1)
        return cs

    def abstract_sign_query(self, p, strict_neg):
        """Monomial abstraction: every monomial becomes a fresh real whose sign follows from the signs of
        its factors (product of positives is positive, even powers are non-negative).  The abstract query
        sum c_k m_k < 0 (or <= 0) is linear; `unsat` there implies `unsat` of the polynomial query."""
        s = z3.SolverFor("QF_LRA")
        s.set("timeout", 5000)
        terms = []
        kinds = self.ring.kind
        for n, (m, c) in enumerate(p.t.items()):
            cls = "pos"
            for i, e in self.ring.mono_items(m):
                k = kinds[i]
                if k == "E":
                    continue
                if k == "R" or e % 2 == 0:
                    if cls == "pos":
                        cls = "nonneg"
                    continue
                cls = None
                break
            if m == 0:
                terms.append(z3.RatVal(c, 1))
                continue
            mv = z3.Real("m!%d" % n)
            if cls == "pos":
                s.add(mv > 0)
            elif cls == "nonneg":
                s.add(mv >= 0)
            terms.append(z3.RatVal(c, 1) * mv)
        tot = (z3.Sum(terms) if len(terms) > 1 else terms[0]) if terms else z3.RealVal(0)
        s.add(tot < 0 if strict_neg else tot <= 0)
        return _chk(s)

    def constraints(self, vs):
        cs = []
        for i in sorted(self.closure(vs)):
            k = self.ring.kind[i]
            x = self.v(i)
            if k == "E":
                cs.append(x > 0)
            elif k == "R":
                cs.append(x >= 0)
                cs.append(x * x == self.poly(self.ring.rel[i]))
            elif k == "S":
                cs.append(x * x == self.poly(self.ring.rel[i]))
            elif k == "C":
                cs.append(x >= -1)
                cs.append(x <= 1)
        return cs


class Oracle:
    """sign queries used by Conv (clamp / abs / radical denominators); all answers are z3 `unsat`s"""

    def __init__(self, timeout_ms=10000):
        self.timeout_ms = timeout_ms
        self.zr = None
        self.cache = {}
        self.queries = 0
        self.time = 0.0
        self.log = []

    def bind(self, ring):
        self.zr = Z3Ring(ring)

    def _syntactic_sign(self, p):
        """'pos' / 'nonneg' / None for polynomials with all-positive coefficients over E / R variables"""
        if not p.t:
            return "nonneg"
        kinds = self.zr.ring.kind
        some_strict = False  # one strictly positive monomial (constant or product of exponentials) among non-negative ones
        for m, c in p.t.items():
            if c < 0:
                return None
            strict = True
            for i, e in self.zr.ring.mono_items(m):
                k = kinds[i]
                if k == "E":
                    continue
                if k == "R":
                    strict = False
                    continue
                if e % 2 == 0 and k in ("V", "C", "S", "L"):
                    strict = False
                    continue
                return None
            some_strict = some_strict or strict
        return "pos" if some_strict else "nonneg"

    def _poly_sign(self, p, want):
        """want in {'pos','nonneg'}; proves the sign of polynomial p for all generator values"""
        key = (p.key(), want)
        r = self.cache.get(key)
        if r is not None:
            return r
        t0 = time.time()
        zp = self.zr.poly(p)
        res = self.zr.abstract_sign_query(p, strict_neg=(want == "nonneg"))
        if res != "unsat":
            s = z3.SolverFor("QF_NRA")
            s.set("timeout", self.timeout_ms)
            for c in self.zr.constraints(p.variables()):
                s.add(c)
            s.add(zp <= 0 if want == "pos" else zp < 0)
            res = _chk(s)
        self.queries += 1
        self.time += time.time() - t0
        ok = res == "unsat"
        self.log.append(("sign-%s" % want, len(p.t), res))
        self.cache[key] = ok
        return ok

    def _den_positive(self, fr):
        for k, (p, e) in fr.d.items():
            if e % 2 == 0:
                continue
            if not self._poly_sign(p, "pos"):
                return False
        return True

    def implied_nonneg(self, fr):
        if fr.is_zero():
            return True
        if not self._den_positive(fr):
            return False
        n = fr.n if fr.s > 0 else -fr.n
        return self._poly_sign(n, "nonneg")

    def implied_pos(self, fr):
        if fr.is_zero():
            return False
        if not self._den_positive(fr):
            return False
        n = fr.n if fr.s > 0 else -fr.n
        return self._poly_sign(n, "pos")


class Goal:
    __slots__ = ("kind", "name", "a", "b", "meta")

    def __init__(self, kind, name, a, b=None, meta=None):
        self.kind, self.name, self.a, self.b, self.meta = kind, name, a, b, meta


class Result(dict):
    pass


def rational_near(x, rel=1e-4):
    """a rational with small denominator within rel of the float x"""
    fr = Fraction(x).limit_denominator(64)
    if x != 0 and abs(float(fr) - x) > rel * abs(x):
        fr = Fraction(x).limit_denominator(4096)
    if x != 0 and abs(float(fr) - x) > rel * abs(x):
        # very small (or very large) magnitudes: keep the relative accuracy, whatever denominator that takes
        fr = Fraction(x).limit_denominator(max(4096, int(10.0 / (rel * abs(x))) + 1))
    if x > 0 and fr <= 0:
        fr = Fraction(x)
    return fr


class Problem:
    """a batch of goals sharing one generator ring"""

    def __init__(self, name, seed=0, timeout_ms=60000, assume_prob_clamp=False, env_range=1.5, var_hook=None):
        self.name = name
        self.goals = []
        self.seed = seed
        self.timeout_ms = timeout_ms
        self.assume_prob_clamp = assume_prob_clamp
        self.env_range = env_range
        self.var_hook = var_hook  # name -> float sampler override (e.g. positive-only variables)
        self.max_sat = 6
        self.var_ranges = []  # [(name prefix, lo, hi)]: sampling range of the validation / counterexample points
        self.extra_assumptions = []
        self.stats = dict(queries=0, unsat=0, sat=0, unknown=0, solver_s=0.0, nf_s=0.0)

    def eq(self, name, a, b, meta=None):
        self.goals.append(Goal("eq", name, S.lift(a), S.lift(b), meta))

    def nonneg(self, name, a, meta=None):
        self.goals.append(Goal("nonneg", name, S.lift(a), None, meta))

    def pos(self, name, a, meta=None):
        self.goals.append(Goal("pos", name, S.lift(a), None, meta))

    # -- environments --------------------------------------------------------------------------
    def _random_env(self, rnd, vars_):
        env = {}
        for v in vars_:
            nm = v.args[0]
            hit = None
            for pref, lo, hi in self.var_ranges:
                if nm.startswith(pref):
                    hit = (lo, hi)
                    break
            if hit is not None:
                k = rnd.randint(0, 64)
                env[nm] = hit[0] + (hit[1] - hit[0]) * k / 64.0
                continue
            if self.var_hook is not None:
                x = self.var_hook(nm, rnd)
                if x is not None:
                    env[nm] = x
                    continue
            k = rnd.randint(-12, 12)
            if k == 0:
                k = 5
            env[nm] = k / 8.0 * (self.env_range / 1.5)
        return env

    def _ring_values(self, conv, env, cache=None):
        ring = conv.ring
        if cache is not None:
            vals, memo = cache
            start = len(vals)
            vals.extend([None] * (len(ring.names) - start))
        else:
            vals = [None] * len(ring.names)
            memo = {}
            start = 0
        for i in range(start, len(ring.names)):
            nm = ring.names[i]
            k = ring.kind[i]
            meta = ring.meta[i]
            if k == "V":
                vals[i] = env[nm]
            elif k == "E":
                atom, q = meta
                vals[i] = math.exp(S.evalf(atom, env, memo) / q)
            elif k == "C":
                atom, q = meta
                vals[i] = math.cos(S.evalf(atom, env, memo) / q)
            elif k == "S":
                atom, q = meta
                vals[i] = math.sin(S.evalf(atom, env, memo) / q)
            elif k == "R":
                vals[i] = math.sqrt(max(ring.rel[i].evalf(vals), 0.0))
            elif k == "L":
                vals[i] = S.evalf(meta, env, memo)
            else:
                raise Inconclusive("unknown generator kind %r" % k)
        return vals

    # -- main ----------------------------------------------------------------------------------
    def solve(self):
        rnd = random.Random(self.seed * 7919 + 17)
        oracle = Oracle()
        roots = []
        for g in self.goals:
            roots.append(g.a)
            if g.b is not None:
                roots.append(g.b)
        t0 = time.time()
        conv = Conv(roots, oracle)
        conv.assume_clamp = self.assume_prob_clamp
        oracle.bind(conv.ring)
        zr = oracle.zr
        allvars = sorted(S.variables(roots), key=lambda v: v.args[0])
        results = []
        nsat = nunk = 0
        twin_names = getattr(self, "twin_names", set())
        for g in self.goals:
            r = Result(name=g.name, kind=g.kind, problem=self.name)
            if g.meta:
                r["meta"] = g.meta
            t1 = time.time()
            if nsat >= self.max_sat and g.name not in twin_names:
                # several counterexamples already found in this job: the rest is not needed for the verdict
                r["verdict"] = "skipped"
                r["seconds"] = 0.0
                results.append(r)
                continue
            try:
                if g.kind == "eq":
                    self._solve_eq(g, conv, zr, rnd, allvars, r)
                else:
                    self._solve_sign(g, conv, zr, rnd, allvars, r)
            except Unsupported as e:
                r["verdict"] = "unknown"
                r["detail"] = "unsupported: %s" % e
            except Inconclusive as e:
                r["verdict"] = "unknown"
                r["detail"] = str(e)
            except S.SymbolicTruthValue as e:
                r["verdict"] = "unknown"
                r["detail"] = "symbolic truth value: %s" % e
            except (OverflowError, ValueError, ZeroDivisionError) as e:
                r["verdict"] = "unknown"
                r["detail"] = "numeric evaluation failed: %r" % (e,)
            r["seconds"] = round(time.time() - t1, 4)
            if _DEBUG:
                print("  [%s] %s: %s %.2fs terms=%s groups=%s %s" % (self.name, g.name, r["verdict"], r["seconds"], r.get("residual_terms"), r.get("groups"), r.get("detail", "")[:100]), flush=True)
            self.stats["queries"] += 1
            if g.name not in twin_names and r["verdict"] == "sat":
                nsat += 1
            elif g.name not in twin_names and r["verdict"] == "unknown" and r.get("residual_terms"):
                nunk += 1
                if nunk >= 40:
                    nsat = max(nsat, self.max_sat)  # stop spending time on this job: it is inconclusive at best
            self.stats[r["verdict"]] = self.stats.get(r["verdict"], 0) + 1
            results.append(r)
        self.stats["total_s"] = round(time.time() - t0, 3)
        self.stats["oracle_queries"] = oracle.queries
        self.stats["oracle_s"] = round(oracle.time, 3)
        self.stats["generators"] = len(conv.ring.names)
        self.stats["relations"] = len(conv.ring.rel)
        # definedness assumptions: try to discharge each, list the rest
        self.assumptions = self._discharge(conv, oracle)
        return results

    def _discharge(self, conv, oracle):
        listed = []
        oracle.timeout_ms = 1500
        t0 = time.time()
        for table, want, label in (
            (conv.assume_pos, "pos", "> 0"),
            (conv.assume_nonneg, "nonneg", ">= 0"),
            (conv.assume_nonzero, "nonzero", "!= 0"),
        ):
            for node, why in list(table.items()):
                if time.time() - t0 > 8:
                    listed.append("%s %s assumed (discharge budget exhausted, not attempted)" % (why, label))
                    continue
                try:
                    fr = conv.f(node)
                    if want == "pos":
                        ok = oracle.implied_pos(fr)
                    elif want == "nonneg":
                        ok = oracle.implied_nonneg(fr)
                    else:
                        ok = oracle.implied_pos(fr) or oracle.implied_pos(-fr)
                except Exception:
                    ok = False
                if not ok:
                    s = repr(node)
                    listed.append("%s %s assumed (%s): %s" % (why, label, "not implied by generator constraints", s[:160]))
        for a in getattr(conv, "clamp_assumed", []):
            listed.append(a)
        return sorted(set(listed))

    def _clamp_points(self, conv, rnd, allvars, nodes=None):
        """parameter points at which a not-provably-inactive clamp is active: greedy coordinate search on the clamp's argument
        (each parameter pushed to +-6 / +-12 / +-16 or to 0 / +-1e-9, up to three parameters in turn) from an ordinary sample point"""
        out = []
        for node in (nodes if nodes is not None else getattr(conv, "clamp_nodes", [])[-16:]):
            arg, lo, hi = node.args
            arg = conv.canon(arg)
            for want_low in ((True,) if hi is None else (False,) if lo is None else (True, False)):
                bound = float(lo if want_low else hi)
                env = self._random_env(rnd, allvars)
                names = [n for n in sorted(env) if not any(n.startswith(pref) for pref, _, _ in self.var_ranges)]

                def val(e):
                    try:
                        return S.evalf(arg, e)
                    except (ValueError, ZeroDivisionError, OverflowError):
                        return None

                cur = val(env)
                found = False
                for _round in range(3):
                    if cur is not None and ((cur < bound) if want_low else (cur > bound)):
                        found = True
                        break
                    bestv, beste = cur, None
                    for nm in names:
                        for mag in (6.0, -6.0, 12.0, -12.0, 16.0, -16.0, 30.0, -30.0, 1e-9, -1e-9):
                            e2 = dict(env)
                            e2[nm] = mag
                            v = val(e2)
                            if v is None:
                                continue
                            if bestv is None or ((v < bestv) if want_low else (v > bestv)):
                                bestv, beste = v, e2
                    if beste is None:
                        break
                    env, cur = beste, bestv
                if not found and cur is not None and ((cur < bound) if want_low else (cur > bound)):
                    found = True
                if not found and cur is not None:
                    # local random search from the best point so far (the activating region may be a thin set, e.g. a near-cancellation)
                    t_end = time.time() + 6.0
                    step = 2.0
                    while time.time() < t_end and not found:
                        e2 = dict(env)
                        for nm in rnd.sample(names, min(len(names), 1 + rnd.randrange(3))):
                            e2[nm] = env[nm] + rnd.gauss(0.0, step)
                        v = val(e2)
                        if v is not None and ((v < cur) if want_low else (v > cur)):
                            env, cur = e2, v
                            found = (cur < bound) if want_low else (cur > bound)
                        else:
                            step = max(0.01, step * 0.97)
                if found:
                    out.append(env)
        return out

    def _float_check(self, g, conv, groups, rnd, allvars):
        """cross-evaluates DAG vs normal form (sum of the per-denominator groups) at a few random rational
        parameter points shared by all goals of the problem; returns (best_env, best_diff, scale, all_zero)"""
        best = None
        npts = 3
        tried = 0
        attempts = 0
        all_zero = True
        if not hasattr(self, "_envs"):
            self._envs = []
        while tried < npts and attempts < 12:
            if attempts >= len(self._envs):
                self._envs.append((self._random_env(rnd, allvars), {}, {}, ([], {})))
            env, mm, vm, rc = self._envs[attempts]
            attempts += 1
            try:
                fa, ma = S.evalf_mag(conv.canon(g.a), env, mm, vm)
                fb, mb = S.evalf_mag(conv.canon(g.b), env, mm, vm) if g.b is not None else (0.0, 0.0)
                vals = self._ring_values(conv, env, rc)
                fr = math.fsum(gr.evalf(vals) for gr in groups)
                mg = math.fsum(abs(gr.evalf(vals)) for gr in groups)
            except (ValueError, ZeroDivisionError, OverflowError):
                continue
            tried += 1
            d = fa - fb
            scale = ma + mb + 1e-300
            if not (abs(d - fr) <= 1e-7 * scale + 1e-9 * abs(fr) + 1e-9 * mg + 1e-12):
                raise Inconclusive(
                    "encoder self-check failed: DAG difference %.12g vs normal form %.12g (scale %.3g)" % (d, fr, scale)
                )
            if abs(d) > min(1e-9, 0.1 * (g.meta or {}).get("tol", 1e-7)) * scale:
                all_zero = False
            if best is None or abs(d) / scale > best[1] / best[2]:
                best = (env, abs(d), scale)
        if best is None:
            raise Inconclusive("no random point inside the domain of definition found")
        if groups and (all_zero or best[1] <= 1e-4 * best[2]):
            # the normal form is not identically zero although the difference is (almost) invisible at ordinary
            # parameter values: look further out (rare input regions, e.g. a branch cut or a regulariser) for a
            # parameter point where the two sides differ visibly
            if not hasattr(self, "_wide"):
                self._wide = []
                self._clamp_done = 0
            nodes = getattr(conv, "clamp_nodes", [])
            if len(nodes) > self._clamp_done and self._clamp_done < 48:
                # clamps met since the last search (goals are converted one by one): their activating points go first
                new = nodes[self._clamp_done:][:16]
                self._clamp_done = len(nodes)
                self._wide[0:0] = [(e_, {}, {}, ([], {})) for e_ in self._clamp_points(conv, rnd, allvars, new)]
            for j in range(48 + min(len(self._wide), 32)):
                if j >= len(self._wide):
                    if j % 2 == 0:
                        # all parameters further out
                        saved = self.env_range
                        self.env_range = saved * (2.0, 3.0, 4.0, 6.0)[(j // 2) % 4]
                        try:
                            env = self._random_env(rnd, allvars)
                        finally:
                            self.env_range = saved
                    else:
                        # an ordinary point with one or two parameters pushed to an extreme value
                        env = self._random_env(rnd, allvars)
                        names = sorted(env)
                        for _ in range(1 + (j // 2) % 2):
                            nm = names[rnd.randrange(len(names))]
                            if not any(nm.startswith(pref) for pref, _, _ in self.var_ranges):
                                env[nm] = rnd.choice((-1.0, 1.0)) * rnd.choice((8.0, 12.0, 16.0))
                    self._wide.append((env, {}, {}, ([], {})))
                env, mm, vm, rc = self._wide[j]
                try:
                    fa, ma = S.evalf_mag(conv.canon(g.a), env, mm, vm)
                    fb, mb = S.evalf_mag(conv.canon(g.b), env, mm, vm) if g.b is not None else (0.0, 0.0)
                except (ValueError, ZeroDivisionError, OverflowError):
                    continue
                d = abs(fa - fb)
                scale = ma + mb + 1e-300
                if d > 1e-9 * scale:
                    all_zero = False
                if d / scale > best[1] / best[2]:
                    best = (env, d, scale)
        return best[0], best[1], best[2], all_zero

    def _solve_eq(self, g, conv, zr, rnd, allvars, r):
        t0 = time.time()
        # a - b is flattened through additions and summed per denominator: if every group vanishes the
        # residual is zero without ever multiplying out the common denominator (DESIGN.md 1.3, decomposition)
        groups = conv.convert_grouped([(Fraction(1), g.a), (Fraction(-1), g.b)])
        r["groups"] = len(groups)
        self.stats["nf_s"] += time.time() - t0
        env, diff, scale, numerically_zero = self._float_check(g, conv, groups, rnd, allvars)
        if len(groups) > 1 and numerically_zero:
            # groups do not vanish one by one although the value does: only the full combination can decide
            t0 = time.time()
            groups = [conv.total(groups)]
            groups = [x for x in groups if not x.is_zero()]
            self.stats["nf_s"] += time.time() - t0
        zero = not groups
        r["residual_terms"] = sum(len(x.n.t) for x in groups)
        replay_tol = (g.meta or {}).get("tol", 1e-7)
        if not zero and not numerically_zero and diff <= 30 * replay_tol * scale and g.name not in getattr(self, "twin_names", set()):
            # the two sides differ symbolically, but nowhere among the sampled parameter points by more than the replay
            # on real floating-point torch could confirm: no counterexample is claimed from this goal
            raise Inconclusive("non-zero residual (%d terms) whose largest sampled effect is %.2g relative: below what a float replay can confirm" % (r["residual_terms"], diff / scale))
        if zero and diff > 1e-6 * scale:
            raise Inconclusive("normal form is zero but the DAGs differ numerically (%.3g)" % diff)
        if not zero and numerically_zero:
            raise Inconclusive(
                "numerically equal but symbolically different residual (%d terms): encoding too weak" % r["residual_terms"]
            )
        t1 = time.time()
        s = z3.SolverFor("QF_NRA")
        s.set("timeout", self.timeout_ms)
        if zero:
            # the residual is identically zero: the query is  constraints /\ 0 != 0
            s.add(z3.RealVal(0) != 0)
            res = _chk(s)
            self.stats["solver_s"] += time.time() - t1
            if res != "unsat":
                raise Inconclusive("solver answered %s on a zero residual" % res)
            r["verdict"] = "unsat"
            return
        # counterexample construction around the rational parameter point env: the residual is the sum of the groups
        vals = self._ring_values(conv, env)
        vs0 = set()
        for gr in groups:
            vs0 |= gr.n.variables()
            for p, _ in gr.d.values():
                vs0 |= p.variables()
        vs = zr.closure(vs0)
        ring = conv.ring

        def residual_expr():
            terms = []
            dens = []
            for gr in groups:
                t = _q(gr.s) * zr.poly(gr.n)
                for key, (p, e) in gr.d.items():
                    zp = zr.poly(p)
                    dens.append(zp)
                    for _ in range(e):
                        t = t / zp
                terms.append(t)
            return (z3.Sum(terms) if len(terms) > 1 else terms[0]), dens

        nrel = sum(1 for i in vs if ring.kind[i] in ("R", "S"))
        res, mode = "unknown", None
        if nrel <= 3 and len(groups) == 1:
            # exact: free generators fixed to rationals near their values at env, relation variables solved by z3
            s.set("timeout", 3000)
            for c in zr.constraints(vs):
                s.add(c)
            for i in sorted(vs):
                k = ring.kind[i]
                x = zr.v(i)
                if k in ("V",):
                    s.add(x == _q(Fraction(vals[i])))
                elif k in ("E", "C", "L"):
                    s.add(x == _q(rational_near(vals[i])))
                elif k == "S":
                    s.add(x >= 0 if vals[i] >= 0 else x <= 0)
            expr, dens = residual_expr()
            for zp in dens:
                s.add(zp != 0)
            s.add(expr != 0)
            res, mode = _chk(s), "exact point of the variety"
        if res != "sat":
            # relaxed: relation variables (towers of square roots are expensive for nlsat) are fixed to rationals
            # within 1e-9 of their values instead of being tied by the exact relation; the model is then a point
            # within 1e-8 of the variety.  Either way the model is only a candidate: the replay decides.
            s = z3.SolverFor("QF_NRA")
            s.set("timeout", self.timeout_ms)
            approx = list(vals)
            for i in sorted(vs):
                k = ring.kind[i]
                x = zr.v(i)
                if k == "V":
                    s.add(x == _q(Fraction(vals[i])))
                elif k in ("E", "C", "L"):
                    q = rational_near(vals[i])
                    approx[i] = float(q)
                    s.add(x == _q(q))
            for i in sorted(vs):
                k = ring.kind[i]
                if k in ("R", "S"):
                    v = math.sqrt(max(ring.rel[i].evalf(approx), 0.0))
                    if k == "S" and vals[i] < 0:
                        v = -v
                    approx[i] = v
                    s.add(zr.v(i) == _q(Fraction(v).limit_denominator(10 ** 12)))
            expr, dens = residual_expr()
            for zp in dens:
                s.add(zp != 0)
            s.add(expr != 0)
            res, mode = _chk(s), "point within 1e-8 of the variety (relation variables fixed numerically)"
        self.stats["solver_s"] += time.time() - t1
        if res == "sat":
            r["verdict"] = "sat"
            r["cex"] = {k: float(v) for k, v in env.items()}
            r["diff"] = diff
            r["scale"] = scale
            r["model"] = mode
        else:
            raise Inconclusive("non-zero residual (%d terms) but solver answered %s near the sampled point" % (r["residual_terms"], res))

    def _solve_sign(self, g, conv, zr, rnd, allvars, r):
        ca = conv.canon(g.a)
        if isinstance(ca, S.Sym) and ca.op == "fn" and ca.args[0] == "abs" and g.kind == "nonneg":
            # |x| is modelled by its defining axioms  a >= 0, a*a == x*x ; the query  a < 0  is then unsat
            s = z3.SolverFor("QF_NRA")
            a_, x_ = z3.Real("abs!v"), z3.Real("abs!arg")
            s.add(a_ >= 0, a_ * a_ == x_ * x_, a_ < 0)
            if _chk(s) != "unsat":
                raise Inconclusive("abs axioms")
            r["verdict"] = "unsat"
            return
        fa = conv.convert(g.a)
        want = "nonneg" if g.kind == "nonneg" else "pos"
        t1 = time.time()
        s = z3.SolverFor("QF_NRA")
        s.set("timeout", self.timeout_ms)
        if fa.is_zero():
            if want == "nonneg":
                s.add(z3.RealVal(0) < 0)
                res = _chk(s)
                r["verdict"] = "unsat"
                return
        dvars = set()
        for p, _ in fa.d.values():
            dvars |= p.variables()
        vs0 = fa.n.variables() | dvars
        vs = zr.closure(vs0)
        num = zr.poly(fa.n) * _q(fa.s)
        if not fa.d:
            # relaxation first: generator sign constraints only (unsat here implies unsat of the full query)
            pn = fa.n if fa.s > 0 else -fa.n
            if zr.abstract_sign_query(pn, strict_neg=(want == "nonneg")) == "unsat":
                self.stats["solver_s"] += time.time() - t1
                r["verdict"] = "unsat"
                r["relaxed"] = True
                return
        for c in zr.constraints(vs):
            s.add(c)
        den = z3.RealVal(1)
        for key, (p, e) in fa.d.items():
            zp = zr.poly(p)
            s.add(zp != 0)
            if e % 2 == 1:
                den = den * zp
        expr = num * den  # same sign as num/den
        s.add(expr < 0 if want == "nonneg" else expr <= 0)
        res = _chk(s)
        self.stats["solver_s"] += time.time() - t1
        if res == "unsat":
            r["verdict"] = "unsat"
            return
        if res != "sat":
            raise Inconclusive("sign query: solver answered %s" % res)
        # a model of the generators; look for a realisable parameter point by evaluation
        best = None
        for _ in range(40):
            env = self._random_env(rnd, allvars)
            try:
                v = S.evalf(conv.canon(g.a), env)
            except (ValueError, ZeroDivisionError, OverflowError):
                continue
            if (v < 0) or (want == "pos" and v <= 0):
                best = (env, v)
                break
        if best is None:
            raise Inconclusive("sign query sat on generators but no realisable parameter point found")
        r["verdict"] = "sat"
        r["cex"] = {k: float(v) for k, v in best[0].items()}
        r["diff"] = abs(best[1])
        r["scale"] = 1.0
