"""Installs symtorch as `torch`, imports QuCumber from the repository under test and rebinds
the module-global `np` of the numpy-heavy QuCumber modules to a thin proxy that keeps
symbolic entries alive (typed constructors -> object arrays, ufuncs on object arrays)."""
import os
import sys
import types
from fractions import Fraction
import numpy as _np
from . import sym as S
from . import symtorch

REPO = os.environ.get("VERIF_REPO", "/repo")


def _is_obj(x):
    return isinstance(x, _np.ndarray) and x.dtype == object


def _cmap(f, x):
    if isinstance(x, _np.ndarray):
        out = _np.empty(x.shape, dtype=object)
        fi, fo = x.reshape(-1), out.reshape(-1)
        for i in range(fi.shape[0]):
            fo[i] = f(fi[i])
        return out.view(symtorch.SymArray)
    return f(x)


def _c(x):
    """scalar -> SymC or exact real"""
    if isinstance(x, S.SymC):
        return x
    if isinstance(x, complex):
        return S.SymC(x.real, x.imag)
    return S.lift(x)


def _cexp(x):
    x = _c(x)
    if isinstance(x, S.SymC):
        return x.exp()
    return S.fn("exp", x)


def _csqrt(x):
    x = _c(x)
    if isinstance(x, S.SymC):
        raise symtorch.UnsupportedOp("sqrt of a complex symbolic value")
    return S.fn("sqrt", x)


def _cabs(x):
    x = _c(x)
    if isinstance(x, S.SymC):
        return abs(x)
    return S.fn("abs", x)


def _creal(x):
    x = _c(x)
    return x.re if isinstance(x, S.SymC) else x


def _cimag(x):
    x = _c(x)
    return x.im if isinstance(x, S.SymC) else Fraction(0)


def _cconj(x):
    x = _c(x)
    return x.conjugate() if isinstance(x, S.SymC) else x


class _Linalg:
    def __init__(self, proxy):
        self._proxy = proxy

    def eigvals(self, m):
        if _is_obj(m):
            hook = self._proxy.eigvals_hook
            if hook is None:
                raise symtorch.UnsupportedOp("np.linalg.eigvals of a symbolic matrix")
            return hook(m)
        return _np.linalg.eigvals(m)

    def svd(self, m, *a, **kw):
        if _is_obj(m):
            hook = self._proxy.svd_hook
            if hook is None:
                raise symtorch.UnsupportedOp("np.linalg.svd of a symbolic matrix")
            return hook(m, *a, **kw)
        return _np.linalg.svd(m, *a, **kw)

    def __getattr__(self, name):
        return getattr(_np.linalg, name)


class NPProxy:
    """numpy, except where QuCumber's use of it would drop or reject symbolic entries"""

    def __init__(self):
        self.eigvals_hook = None
        self.svd_hook = None
        self.linalg = _Linalg(self)

    def __getattr__(self, name):
        return getattr(_np, name)

    def ones(self, shape, dtype=None, **kw):
        if dtype in (complex, _np.complex128, _np.complex64):
            a = _np.empty(shape, dtype=object)
            a[...] = Fraction(1)
            return a.view(symtorch.SymArray)
        return _np.ones(shape, dtype=dtype, **kw)

    def zeros(self, shape, dtype=None, **kw):
        if dtype in (complex, _np.complex128, _np.complex64):
            a = _np.empty(shape, dtype=object)
            a[...] = Fraction(0)
            return a.view(symtorch.SymArray)
        return _np.zeros(shape, dtype=dtype, **kw)

    def exp(self, x):
        if _is_obj(x) or isinstance(x, (S.Sym, S.SymC, Fraction)):
            return _cmap(_cexp, x)
        return _np.exp(x)

    def sqrt(self, x):
        if _is_obj(x) or isinstance(x, (S.Sym, S.SymC, Fraction)):
            return _cmap(_csqrt, x)
        if isinstance(x, symtorch.Tensor):
            return x.sqrt()
        return _np.sqrt(x)

    def abs(self, x):
        if _is_obj(x) or isinstance(x, (S.Sym, S.SymC, Fraction)):
            return _cmap(_cabs, x)
        return _np.abs(x)

    def real(self, x):
        if _is_obj(x) or isinstance(x, (S.Sym, S.SymC, Fraction)):
            return _cmap(_creal, x)
        return _np.real(x)

    def imag(self, x):
        if _is_obj(x) or isinstance(x, (S.Sym, S.SymC, Fraction)):
            return _cmap(_cimag, x)
        return _np.imag(x)

    def conj(self, x):
        if _is_obj(x) or isinstance(x, (S.Sym, S.SymC, Fraction)):
            return _cmap(_cconj, x)
        return _np.conj(x)

    conjugate = conj

    def einsum(self, eq, *ops, **kw):
        r = _np.einsum(eq, *ops, **kw)
        if _is_obj(r):
            return r.view(symtorch.SymArray)
        return r

    def matmul(self, a, b):
        r = _np.matmul(a, b)
        if _is_obj(r):
            return r.view(symtorch.SymArray)
        return r

    def sum(self, x, *a, **k):
        r = _np.sum(x, *a, **k)
        if isinstance(r, _np.ndarray) and r.ndim == 0 and r.dtype == object:
            r = r[()]  # numpy returns a scalar, not a 0-d array, for a full reduction
        return r

    def prod(self, x, *a, **k):
        r = _np.prod(x, *a, **k)
        if _is_obj(r):
            return r.view(symtorch.SymArray)
        return r


PROXY = NPProxy()
_installed = {}


def install(repo=None):
    """returns the (shim) torch module; idempotent"""
    repo = repo or REPO
    if _installed:
        if _installed["repo"] != repo:
            raise RuntimeError("shim already installed for another repository path")
        return _installed["torch"]
    t = symtorch.install()
    if "scipy" not in sys.modules:
        # qucumber.utils.training_statistics imports scipy.linalg.sqrtm but never calls it;
        # scipy is not installed in /venv (recorded as a stub in the evidence of C10)
        sl = types.ModuleType("scipy.linalg")

        def sqrtm(*a, **k):
            raise symtorch.UnsupportedOp("scipy.linalg.sqrtm")

        sl.sqrtm = sqrtm
        sp = types.ModuleType("scipy")
        sp.linalg = sl
        sys.modules["scipy"] = sp
        sys.modules["scipy.linalg"] = sl
    if repo not in sys.path:
        sys.path.insert(0, repo)
    import warnings

    warnings.filterwarnings("ignore")
    import qucumber  # noqa: F401
    import qucumber.nn_states.neural_state as ns
    import qucumber.utils.cplx as cplx
    import qucumber.utils.unitaries as unitaries
    import qucumber.utils.training_statistics as ts
    import qucumber.observables.observable as obs
    import qucumber.observables.system as system
    import qucumber.rbm.binary_rbm as brbm
    import qucumber.rbm.purification_rbm as prbm

    src = os.path.realpath(qucumber.__file__)
    if not src.startswith(os.path.realpath(repo) + os.sep):
        raise RuntimeError("qucumber imported from %s, not from %s" % (src, repo))
    for m in (cplx, unitaries, ts, obs, system, brbm, prbm, ns):
        if getattr(m, "np", None) is _np:
            m.np = PROXY
    ns.tqdm = lambda it, **kw: it
    _installed.update(repo=repo, torch=t)
    return t
