"""pathfork: a small fork-on-branch symbolic executor for the control-flow properties (DESIGN.md 1.5).

SInt / SReal / SBool are proxies over z3 terms.  `bool(SBool)` asks z3 which sides of the branch are feasible under
the path condition and explores both by re-execution from a decision prefix; `__index__/__int__/__float__` (every
C boundary: range(), tensor sizes, string formatting, numpy) forks over ALL values z3 admits for the term (finite
because the preconditions bound every symbolic integer).  The real library code runs concretely below each fork.
"""
import time
from fractions import Fraction
import z3


class Exhausted(Exception):
    pass


class _Ctx:
    def __init__(self):
        self.prefix = []
        self.pos = 0
        self.pc = []
        self.solver_calls = 0
        self.pending = []
        self.decisions = 0
        self.fresh = 0


CTX = None
MAX_VALUES = 256


def _feasible(extra):
    CTX.solver_calls += 1
    s = z3.Solver()
    s.set("timeout", 20000)
    s.add(*CTX.pc)
    s.add(extra)
    r = s.check()
    if r == z3.unknown:
        # the default strategy can give up on non-linear real constraints; nlsat is complete for them
        for mk in (lambda: z3.SolverFor("QF_NRA"), lambda: z3.Tactic("qfnra-nlsat").solver()):
            try:
                s2 = mk()
                s2.set("timeout", 60000)
                s2.add(*CTX.pc)
                s2.add(extra)
                r = s2.check()
            except z3.Z3Exception:
                continue
            if r != z3.unknown:
                break
    if r == z3.unknown:
        raise RuntimeError("pathfork: solver returned unknown on a feasibility query")
    return r == z3.sat


def _decide(options):
    """options: list of (label, constraint).  Follow the prefix if present, else take the first feasible option and
    schedule the other feasible ones."""
    c = CTX
    c.decisions += 1
    if c.pos < len(c.prefix):
        lab = c.prefix[c.pos]
        c.pos += 1
        for l, con in options:
            if l == lab:
                c.pc.append(con)
                return l
        raise RuntimeError("pathfork: non-deterministic re-execution (decision %r not offered)" % (lab,))
    feas = [(l, con) for l, con in options if _feasible(con)]
    if not feas:
        raise RuntimeError("pathfork: no feasible option at a decision point")
    for l, con in feas[1:]:
        c.pending.append(list(c.prefix[: c.pos]) + [l])
    l, con = feas[0]
    c.prefix.append(l)
    c.pos += 1
    c.pc.append(con)
    return l


def _values(e):
    vals = []
    s = z3.Solver()
    s.add(*CTX.pc)
    while True:
        CTX.solver_calls += 1
        if s.check() != z3.sat:
            break
        v = s.model().eval(e, model_completion=True)
        vals.append(v.as_long())
        s.add(e != v)
        if len(vals) > MAX_VALUES:
            raise RuntimeError("pathfork: unbounded concretisation of %s" % e)
    return sorted(vals)


class SBool:
    def __init__(self, e):
        self.e = e

    def __bool__(self):
        e = z3.simplify(self.e)
        if z3.is_true(e):
            return True
        if z3.is_false(e):
            return False
        return _decide([(True, self.e), (False, z3.Not(self.e))])

    def __and__(self, o):
        return SBool(z3.And(self.e, _b(o)))

    __rand__ = __and__

    def __or__(self, o):
        return SBool(z3.Or(self.e, _b(o)))

    __ror__ = __or__

    def __invert__(self):
        return SBool(z3.Not(self.e))


def _b(x):
    if isinstance(x, SBool):
        return x.e
    return z3.BoolVal(bool(x))


class _NonFinite(Exception):
    pass


def _nanguard(f):
    """arithmetic with a non-finite float operand yields NaN, as in Python"""
    import functools

    @functools.wraps(f)
    def g(self, o):
        try:
            return f(self, o)
        except _NonFinite:
            return float("nan")

    return g


def _e(x):
    if isinstance(x, (SInt, SReal)):
        return x.e
    if isinstance(x, bool):
        return int(x)
    if isinstance(x, float):
        if x != x or x in (float("inf"), float("-inf")):
            raise _NonFinite()
        fr = Fraction(x)
        return z3.RatVal(fr.numerator, fr.denominator)
    return x


class SInt:
    def __init__(self, e):
        self.e = e if not isinstance(e, str) else z3.Int(e)

    def _c(self):
        e = z3.simplify(self.e)
        if z3.is_int_value(e):
            return e.as_long()
        c = CTX
        if c.pos < len(c.prefix):
            lab = c.prefix[c.pos]
            c.pos += 1
            c.decisions += 1
            c.pc.append(self.e == lab[1])
            return lab[1]
        vals = _values(self.e)
        opts = [(("v", v), self.e == v) for v in vals]
        lab = _decide(opts)
        return lab[1]

    __index__ = _c
    __int__ = _c

    def __float__(self):
        return float(self._c())

    def __hash__(self):
        return hash(self._c())

    def __repr__(self):
        return "SInt(%s)" % self.e

    def __str__(self):
        return str(self._c())

    def __format__(self, spec):
        return format(self._c(), spec)

    def __bool__(self):
        return bool(SBool(self.e != 0))

    @_nanguard
    def __add__(self, o):
        if isinstance(o, float):
            return SReal(z3.ToReal(self.e) + _e(o))
        if isinstance(o, SReal):
            return SReal(z3.ToReal(self.e) + o.e)
        return SInt(self.e + _e(o))

    __radd__ = __add__

    @_nanguard
    def __sub__(self, o):
        if isinstance(o, (float, SReal)):
            return SReal(z3.ToReal(self.e) - _e(o))
        return SInt(self.e - _e(o))

    @_nanguard
    def __rsub__(self, o):
        if isinstance(o, (float, SReal)):
            return SReal(_e(o) - z3.ToReal(self.e))
        return SInt(_e(o) - self.e)

    @_nanguard
    def __mul__(self, o):
        if isinstance(o, (float, SReal)):
            return SReal(z3.ToReal(self.e) * _e(o))
        return SInt(self.e * _e(o))

    __rmul__ = __mul__

    def __floordiv__(self, o):
        return SInt(_fdiv(self.e, _e(o)))

    def __rfloordiv__(self, o):
        return SInt(_fdiv(z3.IntVal(o) if isinstance(o, int) else _e(o), self.e))

    def __mod__(self, o):
        return SInt(_fmod(self.e, _e(o)))

    def __rmod__(self, o):
        return SInt(_fmod(z3.IntVal(o) if isinstance(o, int) else _e(o), self.e))

    @_nanguard
    def __truediv__(self, o):
        if isinstance(o, (int, SInt)):
            # int / int produces a Python float that immediately reaches C code (np.ceil, float()): concretise both
            return self._c() / int(o)
        return SReal(z3.ToReal(self.e) / _r(o))

    @_nanguard
    def __rtruediv__(self, o):
        if isinstance(o, (int, SInt)):
            return int(o) / self._c()
        return SReal(_r(o) / z3.ToReal(self.e))

    def __neg__(self):
        return SInt(-self.e)

    def __pos__(self):
        return self

    # bit operations and powers reach C code at once (numpy): concretise
    def __rpow__(self, base):
        return base ** self._c()

    def __pow__(self, k):
        return self._c() ** k

    def __and__(self, o):
        return self._c() & o

    __rand__ = __and__

    def __or__(self, o):
        return self._c() | o

    __ror__ = __or__

    def __lshift__(self, o):
        return self._c() << o

    def __rlshift__(self, o):
        return o << self._c()

    def __rshift__(self, o):
        return self._c() >> o

    def __rrshift__(self, o):
        return o >> self._c()

    def __abs__(self):
        return SInt(z3.If(self.e >= 0, self.e, -self.e))

    def __eq__(self, o):
        if isinstance(o, (str, type(None), tuple, list)):
            return False
        return SBool(self.e == _e(o))

    def __ne__(self, o):
        if isinstance(o, (str, type(None), tuple, list)):
            return True
        return SBool(self.e != _e(o))

    def __lt__(self, o):
        return SBool(self.e < _e(o))

    def __le__(self, o):
        return SBool(self.e <= _e(o))

    def __gt__(self, o):
        return SBool(self.e > _e(o))

    def __ge__(self, o):
        return SBool(self.e >= _e(o))


def _fdiv(a, b):
    """Python floor division on z3 ints (z3 `/` on ints is floor division for positive divisors, euclidean otherwise)"""
    if isinstance(b, int):
        b = z3.IntVal(b)
    if isinstance(a, int):
        a = z3.IntVal(a)
    q = a / b
    r = a % b
    # z3: a = b*q + r, 0 <= r < |b|.  Python: r has the sign of b.
    return z3.If(z3.And(b < 0, r != 0), q - 1, q)


def _fmod(a, b):
    if isinstance(b, int):
        b = z3.IntVal(b)
    if isinstance(a, int):
        a = z3.IntVal(a)
    r = a % b
    return z3.If(z3.And(b < 0, r != 0), r + b, r)


def _r(x):
    if isinstance(x, SInt):
        return z3.ToReal(x.e)
    if isinstance(x, SReal):
        return x.e
    if isinstance(x, int):
        return z3.RealVal(x)
    if isinstance(x, float):
        if x != x or x in (float("inf"), float("-inf")):
            raise _NonFinite()
        fr = Fraction(x)
        return z3.RatVal(fr.numerator, fr.denominator)
    return x


class SReal:
    """symbolic real; has no concrete value: float() is refused (such a path is reported as unsupported)"""

    __array_priority__ = 3000

    def __init__(self, e):
        self.e = e if not isinstance(e, str) else z3.Real(e)

    def __repr__(self):
        return "SReal(%s)" % z3.simplify(self.e)

    def __bool__(self):
        # Python truth value of a number: non-zero (both outcomes are explored when feasible)
        return bool(SBool(self.e != 0))

    def __float__(self):
        e = z3.simplify(self.e)
        if z3.is_rational_value(e):
            return float(e.as_fraction())
        raise TypeError("pathfork: symbolic real reached a C boundary (float())")

    def __format__(self, spec):
        return "<sreal>"

    @_nanguard
    def __add__(self, o):
        return SReal(self.e + _r(o))

    __radd__ = __add__

    @_nanguard
    def __sub__(self, o):
        return SReal(self.e - _r(o))

    @_nanguard
    def __rsub__(self, o):
        return SReal(_r(o) - self.e)

    @_nanguard
    def __mul__(self, o):
        return SReal(self.e * _r(o))

    __rmul__ = __mul__

    @_nanguard
    def __truediv__(self, o):
        d = _r(o)
        nz = SBool(d != 0)
        if not bool(nz):
            raise ZeroDivisionError("float division by zero")
        return SReal(self.e / d)

    @_nanguard
    def __rtruediv__(self, o):
        nz = SBool(self.e != 0)
        if not bool(nz):
            raise ZeroDivisionError("float division by zero")
        return SReal(_r(o) / self.e)

    def __neg__(self):
        return SReal(-self.e)

    def __pos__(self):
        return self

    def __abs__(self):
        return SReal(z3.If(self.e >= 0, self.e, -self.e))

    def __pow__(self, k):
        if isinstance(k, int) and k >= 0:
            r = z3.RealVal(1)
            for _ in range(k):
                r = r * self.e
            return SReal(r)
        raise TypeError("pathfork: unsupported power")

    def sqrt(self):
        """numpy calls this for np.sqrt(object): a fresh non-negative real r with r*r == x (x >= 0 required)"""
        CTX.fresh += 1
        r = z3.Real("sqrt!%d" % CTX.fresh)
        neg = SBool(self.e < 0)
        if bool(neg):
            raise ValueError("sqrt of a negative value (numpy would return nan)")
        CTX.pc.append(z3.And(r >= 0, r * r == self.e))
        return SReal(r)

    def __eq__(self, o):
        if isinstance(o, (str, type(None))):
            return False
        return SBool(self.e == _r(o))

    def __ne__(self, o):
        if isinstance(o, (str, type(None))):
            return True
        return SBool(self.e != _r(o))

    def __lt__(self, o):
        return SBool(self.e < _r(o))

    def __le__(self, o):
        return SBool(self.e <= _r(o))

    def __gt__(self, o):
        return SBool(self.e > _r(o))

    def __ge__(self, o):
        return SBool(self.e >= _r(o))

    __hash__ = None


def assume(cond):
    """adds a constraint to the path condition (infeasible paths are abandoned)"""
    e = _b(cond) if isinstance(cond, (SBool, bool)) else cond
    if not _feasible(e):
        raise Exhausted()
    CTX.pc.append(e)


def model_value(m, x):
    v = m.eval(x, model_completion=True)
    if z3.is_int_value(v):
        return v.as_long()
    if z3.is_rational_value(v):
        fr = v.as_fraction()
        return float(fr)
    if z3.is_algebraic_value(v):
        return float(v.approx(12).as_fraction())
    if z3.is_true(v):
        return True
    if z3.is_false(v):
        return False
    return str(v)


def explore(fn, pre, inputs, max_paths=200000, budget_s=None):
    """fn() -> bool | (bool, detail).  pre: list of z3 constraints; inputs: dict name -> z3 term (reported in failures).
    Returns dict(paths, solver_calls, decisions, failures=[dict(inputs, detail)], errors=[...])."""
    global CTX
    work = [[]]
    paths = calls = decisions = 0
    failures, errors = [], []
    deepest = 0
    t0 = time.time()
    samples = []
    while work:
        prefix = work.pop()
        CTX = _Ctx()
        CTX.prefix = list(prefix)
        CTX.pc = list(pre)
        detail = ""
        try:
            r = fn()
            ok, detail = (r if isinstance(r, tuple) else (r, ""))
            ok = bool(ok)
        except Exhausted:
            ok = True
            detail = "infeasible"
        except Exception as e:  # noqa: BLE001 - an exception of the code under test on this path
            ok = False
            detail = "exception %s: %s" % (type(e).__name__, e)
        paths += 1
        calls += CTX.solver_calls
        decisions += CTX.decisions
        deepest = max(deepest, len(CTX.prefix))
        if not ok or len(samples) < 3:
            s = z3.Solver()
            s.add(*CTX.pc)
            if s.check() == z3.sat:
                m = s.model()
                vals = {k: model_value(m, v) for k, v in inputs.items()}
                if not ok:
                    failures.append(dict(inputs=vals, detail=str(detail)[:300], prefix_len=len(CTX.prefix)))
                elif detail != "infeasible":
                    samples.append(dict(inputs=vals, decisions=len(CTX.prefix)))
            elif not ok:
                errors.append("failing path with unsatisfiable path condition: %s" % detail)
        work.extend(CTX.pending)
        if paths > max_paths:
            errors.append("path budget exhausted (%d paths)" % paths)
            break
        if budget_s is not None and time.time() - t0 > budget_s:
            errors.append("time budget exhausted after %d paths" % paths)
            break
    return dict(paths=paths, solver_calls=calls, decisions=decisions, deepest=deepest, failures=failures, errors=errors,
                samples=samples, seconds=round(time.time() - t0, 2))
