"""bin/check <Cxx> <quick|thorough>"""
import importlib
import os
import sys


def main(argv):
    if len(argv) < 2:
        print("usage: bin/check <Cxx> <quick|thorough>")
        return 2
    pid = argv[0].upper()
    tier = argv[1] if len(argv) > 1 else os.environ.get("VERIF_TIER", "quick")
    seed = int(os.environ.get("VERIF_SEED", "0"))
    mod = importlib.import_module("checks.%s" % pid.lower())
    return mod.main(tier, seed)


if __name__ == "__main__":
    sys.exit(main(sys.argv[1:]))
