"""Symbolic real scalars: a hash-consed expression DAG over exact rationals.

Node kinds (``op``):
  var(name) | add(t1..tn) | mul(t1..tn) | div(a, b) | pow(a, int k) |
  fn(name, args...) with name in exp log sqrt cos sin atan2 abs |
  clamp(x, lo, hi)   (lo / hi rationals or None)

Only constant folding is done here (x+0, x*1, x*0, exp(0), ...).  All algebra is in poly.py.
Float literals are lifted *exactly* (Fraction(float)), except sqrt(2) and 1/sqrt(2), which are
lifted to the algebraic constant (modelling decision recorded in DESIGN.md 1.2).
"""
from fractions import Fraction
import math

_TABLE = {}
_COUNTER = [0]


class UndefinedValue(ArithmeticError):
    """the real-arithmetic model has no value here (torch would produce inf / NaN): log(0), sqrt(-1), ..."""


class SymbolicTruthValue(TypeError):
    """library code branched on / converted a symbolic value"""


class Sym:
    __slots__ = ("op", "args", "id", "__weakref__")
    __array_priority__ = 1000

    def __new__(cls, op, args):
        key = (op, args)
        s = _TABLE.get(key)
        if s is None:
            s = object.__new__(cls)
            s.op = op
            s.args = args
            _COUNTER[0] += 1
            s.id = _COUNTER[0]
            _TABLE[key] = s
        return s

    def __hash__(self):
        return self.id

    def __eq__(self, other):  # structural identity; symbolic comparisons are explicit queries
        return self is other

    def __ne__(self, other):
        return self is not other

    def __repr__(self):
        if self.op == "var":
            return self.args[0]
        if self.op == "fn":
            return "%s(%s)" % (self.args[0], ",".join(map(_r, self.args[1:])))
        if self.op == "add":
            return "(" + " + ".join(map(_r, self.args)) + ")"
        if self.op == "mul":
            return "(" + "*".join(map(_r, self.args)) + ")"
        if self.op == "pow":
            return "%s^%d" % (_r(self.args[0]), self.args[1])
        if self.op == "div":
            return "(%s / %s)" % (_r(self.args[0]), _r(self.args[1]))
        return "%s%r" % (self.op, self.args)

    # arithmetic
    def __add__(self, o):
        if isinstance(o, (SymC, complex)):
            return SymC.of(o) + self
        return add(self, o)

    __radd__ = __add__

    def __neg__(self):
        return mul(Fraction(-1), self)

    def __pos__(self):
        return self

    def __sub__(self, o):
        if isinstance(o, (SymC, complex)):
            return SymC(self) - o
        return add(self, neg(o))

    def __rsub__(self, o):
        if isinstance(o, (SymC, complex)):
            return SymC.of(o) - SymC(self)
        return add(neg(self), o)

    def __mul__(self, o):
        if isinstance(o, (SymC, complex)):
            return SymC.of(o) * self
        return mul(self, o)

    __rmul__ = __mul__

    def __truediv__(self, o):
        if isinstance(o, (SymC, complex)):
            return SymC(self) / o
        return div(self, o)

    def __rtruediv__(self, o):
        if isinstance(o, (SymC, complex)):
            return SymC.of(o) / SymC(self)
        return div(o, self)

    def __pow__(self, k):
        return power(self, k)

    def __abs__(self):
        return fn("abs", self)

    def __float__(self):
        raise SymbolicTruthValue("symbolic value converted to float")

    def __int__(self):
        raise SymbolicTruthValue("symbolic value converted to int")

    def __index__(self):
        raise SymbolicTruthValue("symbolic value used as index")

    def __bool__(self):
        raise SymbolicTruthValue("symbolic value used as truth value")

    def __lt__(self, o):
        raise SymbolicTruthValue("symbolic comparison")

    __le__ = __gt__ = __ge__ = __lt__

    def exp(self):
        return fn("exp", self)

    def log(self):
        return fn("log", self)

    def cos(self):
        return fn("cos", self)

    def sin(self):
        return fn("sin", self)

    def sqrt(self):
        return fn("sqrt", self)

    def conjugate(self):
        return self

    @property
    def real(self):
        return self

    @property
    def imag(self):
        return Fraction(0)


def _idkey(x):
    return x.id


def _r(x):
    if isinstance(x, Fraction):
        return str(x)
    return repr(x)


SQRT2 = Sym("fn", ("sqrt", Fraction(2)))
_SQRT2_F = math.sqrt(2)
_ISQRT2_F = 1 / math.sqrt(2)


def lift(x):
    if isinstance(x, (Sym, Fraction)):
        return x
    if isinstance(x, bool):
        return Fraction(int(x))
    if isinstance(x, int):
        return Fraction(x)
    if isinstance(x, float):
        if x == _SQRT2_F:
            return SQRT2
        if x == _ISQRT2_F:
            return div(Fraction(1), SQRT2)
        if x != x or x in (math.inf, -math.inf):
            raise ValueError("non-finite float literal %r" % x)
        return Fraction(x)
    import numpy as np

    if isinstance(x, np.generic):
        return lift(x.item())
    if isinstance(x, np.ndarray) and x.ndim == 0:
        return lift(x[()])
    raise TypeError("cannot lift %r" % type(x))


def is_const(x):
    return isinstance(x, Fraction)


def var(name):
    return Sym("var", (name,))


def neg(x):
    x = lift(x)
    if isinstance(x, Fraction):
        return -x
    return mul(Fraction(-1), x)


def add(a, b):
    a, b = lift(a), lift(b)
    if isinstance(a, Fraction) and isinstance(b, Fraction):
        return a + b
    terms = []
    const = Fraction(0)
    for t in (a, b):
        if isinstance(t, Fraction):
            const += t
        elif t.op == "add":
            for u in t.args:
                if isinstance(u, Fraction):
                    const += u
                else:
                    terms.append(u)
        else:
            terms.append(t)
    if not terms:
        return const
    if len(terms) > 1:
        terms.sort(key=_idkey)  # canonical argument order: a+b and b+a are the same node
    if const != 0:
        terms.append(const)
    if len(terms) == 1:
        return terms[0]
    return Sym("add", tuple(terms))


def addn(xs):
    r = Fraction(0)
    for x in xs:
        r = add(r, x)
    return r


def mul(a, b):
    a, b = lift(a), lift(b)
    if isinstance(a, Fraction) and isinstance(b, Fraction):
        return a * b
    const = Fraction(1)
    terms = []
    for t in (a, b):
        if isinstance(t, Fraction):
            const *= t
        elif t.op == "mul":
            for u in t.args:
                if isinstance(u, Fraction):
                    const *= u
                else:
                    terms.append(u)
        else:
            terms.append(t)
    if const == 0:
        return Fraction(0)
    if not terms:
        return const
    if len(terms) > 1:
        terms.sort(key=_idkey)
    if const != 1:
        terms.insert(0, const)
    if len(terms) == 1:
        return terms[0]
    return Sym("mul", tuple(terms))


def muln(xs):
    r = Fraction(1)
    for x in xs:
        r = mul(r, x)
    return r


def sub(a, b):
    return add(a, neg(b))


def div(a, b):
    a, b = lift(a), lift(b)
    if isinstance(b, Fraction):
        return mul(a, 1 / b)  # ZeroDivisionError on a concrete zero, like Python
    if isinstance(a, Fraction) and a == 0:
        # 0/b: b != 0 is a definedness assumption collected by poly.Conv when b is converted ...
        if isinstance(b, Sym) and b.op == "fn" and b.args[0] == "sqrt" and isinstance(b.args[1], Fraction) and b.args[1] > 0:
            return Fraction(0)  # ... except for a plainly non-zero constant such as sqrt(2)
        return Sym("div", (a, b))
    return Sym("div", (a, b))


def power(a, k):
    a = lift(a)
    if isinstance(k, Fraction) and k.denominator == 1:
        k = int(k)
    if isinstance(k, float) and k == int(k):
        k = int(k)
    if isinstance(k, float) and k == 0.5:
        return fn("sqrt", a)
    if not isinstance(k, int) or isinstance(k, bool):
        raise TypeError("unsupported exponent %r" % (k,))
    if isinstance(a, Fraction):
        return a ** k
    if k == 1:
        return a
    if k == 0:
        return Fraction(1)
    return Sym("pow", (a, k))


_FLOATFN = {
    "exp": math.exp,
    "log": math.log,
    "cos": math.cos,
    "sin": math.sin,
    "sqrt": math.sqrt,
    "atan2": math.atan2,
    "abs": abs,
    "nonneg": lambda x: x,
    "remainder": lambda a, b: a - b * math.floor(a / b),
    "fmod": math.fmod,
    "softplus_thr": lambda x, t: x if x > t else math.log1p(math.exp(x)),
}


def fn(name, *xs):
    xs = tuple(lift(x) for x in xs)
    if all(isinstance(x, Fraction) for x in xs):
        if name == "exp" and xs[0] == 0:
            return Fraction(1)
        if name == "log" and xs[0] == 1:
            return Fraction(0)
        if name == "log" and xs[0] <= 0:
            raise UndefinedValue("log(%s)" % xs[0])
        if name == "sqrt" and xs[0] < 0:
            raise UndefinedValue("sqrt(%s)" % xs[0])
        if name == "cos" and xs[0] == 0:
            return Fraction(1)
        if name == "sin" and xs[0] == 0:
            return Fraction(0)
        if name == "abs":
            return abs(xs[0])
        if name == "nonneg":
            return xs[0]
        if name == "remainder" and xs[1] != 0:
            return xs[0] - xs[1] * (xs[0] / xs[1]).__floor__()
        if name == "atan2" and xs[0] == 0 and xs[1] > 0:
            return Fraction(0)
        if name == "sqrt" and xs[0] >= 0:
            r = Fraction(math.isqrt(xs[0].numerator), math.isqrt(xs[0].denominator))
            if r * r == xs[0]:
                return r
    return Sym("fn", (name,) + xs)


def clamp(x, lo=None, hi=None):
    x = lift(x)
    lo = None if lo is None else Fraction(lo)
    hi = None if hi is None else Fraction(hi)
    if isinstance(x, Fraction):
        if lo is not None and x < lo:
            return lo
        if hi is not None and x > hi:
            return hi
        return x
    return Sym("clamp", (x, lo, hi))


class SymC:
    """complex scalar re + i*im whose parts are Sym / Fraction (numpy object arrays hold these)."""

    __slots__ = ("re", "im")
    __array_priority__ = 1000

    def __init__(self, re, im=Fraction(0)):
        self.re, self.im = lift(re), lift(im)

    @staticmethod
    def of(x):
        if isinstance(x, SymC):
            return x
        if isinstance(x, complex):
            return SymC(x.real, x.imag)
        return SymC(x)

    def __add__(self, o):
        o = SymC.of(o)
        return SymC(add(self.re, o.re), add(self.im, o.im))

    __radd__ = __add__

    def __sub__(self, o):
        o = SymC.of(o)
        return SymC(add(self.re, neg(o.re)), add(self.im, neg(o.im)))

    def __rsub__(self, o):
        return SymC.of(o) - self

    def __mul__(self, o):
        o = SymC.of(o)
        return SymC(
            add(mul(self.re, o.re), neg(mul(self.im, o.im))),
            add(mul(self.re, o.im), mul(self.im, o.re)),
        )

    __rmul__ = __mul__

    def conjugate(self):
        return SymC(self.re, neg(self.im))

    conj = conjugate

    def exp(self):
        e = fn("exp", self.re)
        return SymC(mul(e, fn("cos", self.im)), mul(e, fn("sin", self.im)))

    def __truediv__(self, o):
        o = SymC.of(o)
        if isinstance(o.im, Fraction) and o.im == 0:
            return SymC(div(self.re, o.re), div(self.im, o.re))
        d = add(power(o.re, 2), power(o.im, 2))
        n = self * o.conjugate()
        return SymC(div(n.re, d), div(n.im, d))

    def __rtruediv__(self, o):
        return SymC.of(o) / self

    def __neg__(self):
        return SymC(neg(self.re), neg(self.im))

    def __pos__(self):
        return self

    def __abs__(self):
        return fn("sqrt", add(power(self.re, 2), power(self.im, 2)))

    def abs2(self):
        return add(power(self.re, 2), power(self.im, 2))

    def __bool__(self):
        raise SymbolicTruthValue("symbolic complex used as truth value")

    @property
    def real(self):
        return self.re

    @property
    def imag(self):
        return self.im

    def __repr__(self):
        return "(%s + %s j)" % (_r(self.re), _r(self.im))


def real_of(x):
    if isinstance(x, SymC):
        return x.re
    if isinstance(x, complex):
        return Fraction(x.real)
    return lift(x)


def imag_of(x):
    if isinstance(x, SymC):
        return x.im
    if isinstance(x, complex):
        return Fraction(x.imag)
    return Fraction(0)


def diff(x, v, memo=None):
    """d x / d v  (v a var node); chain rule over the DAG."""
    if memo is None:
        memo = {}
    if isinstance(x, Fraction):
        return Fraction(0)
    r = memo.get(x)
    if r is not None:
        return r
    op = x.op
    if op == "var":
        r = Fraction(1) if x is v else Fraction(0)
    elif op == "add":
        r = Fraction(0)
        for a in x.args:
            r = add(r, diff(a, v, memo))
    elif op == "mul":
        r = Fraction(0)
        for i, a in enumerate(x.args):
            d = diff(a, v, memo)
            if isinstance(d, Fraction) and d == 0:
                continue
            t = d
            for j, b in enumerate(x.args):
                if j != i:
                    t = mul(t, b)
            r = add(r, t)
    elif op == "div":
        a, b = x.args
        da, db = diff(a, v, memo), diff(b, v, memo)
        if isinstance(db, Fraction) and db == 0:
            r = div(da, b)
        else:
            r = add(div(da, b), neg(div(mul(a, db), power(b, 2))))
    elif op == "pow":
        a, k = x.args
        r = mul(mul(Fraction(k), power(a, k - 1)), diff(a, v, memo))
    elif op == "fn":
        name = x.args[0]
        a = x.args[1]
        da = diff(a, v, memo)
        if name == "atan2":
            y, xx = x.args[1], x.args[2]
            dy, dx = da, diff(xx, v, memo)
            if all(isinstance(t, Fraction) and t == 0 for t in (dy, dx)):
                r = Fraction(0)
            else:
                r = div(add(mul(xx, dy), neg(mul(y, dx))), add(power(xx, 2), power(y, 2)))
        elif name in ("remainder", "fmod"):
            r = da  # piecewise x - m*floor(x/m) for a constant modulus: derivative 1 almost everywhere
        elif isinstance(da, Fraction) and da == 0:
            r = Fraction(0)
        elif name == "exp":
            r = mul(x, da)
        elif name == "log":
            r = div(da, a)
        elif name == "cos":
            r = mul(neg(fn("sin", a)), da)
        elif name == "sin":
            r = mul(fn("cos", a), da)
        elif name == "sqrt":
            r = div(da, mul(2, x))
        else:
            raise ValueError("diff of %s" % name)
    elif op == "clamp":
        raise ValueError("diff of clamp")
    else:
        raise ValueError(op)
    memo[x] = r
    return r


def evalf(x, env, memo=None):
    """float value of a DAG at env: var name -> float"""
    if memo is None:
        memo = {}
    if isinstance(x, Fraction):
        return float(x)
    if isinstance(x, (int, float)):
        return float(x)
    r = memo.get(x)
    if r is not None:
        return r
    op = x.op
    if op == "var":
        r = env[x.args[0]]
    elif op == "add":
        r = math.fsum(evalf(a, env, memo) for a in x.args)
    elif op == "mul":
        r = 1.0
        for a in x.args:
            r *= evalf(a, env, memo)
    elif op == "div":
        r = evalf(x.args[0], env, memo) / evalf(x.args[1], env, memo)
    elif op == "pow":
        r = evalf(x.args[0], env, memo) ** x.args[1]
    elif op == "fn":
        r = _FLOATFN[x.args[0]](*[evalf(a, env, memo) for a in x.args[1:]])
    elif op == "clamp":
        r = evalf(x.args[0], env, memo)
        if x.args[1] is not None:
            r = max(r, float(x.args[1]))
        if x.args[2] is not None:
            r = min(r, float(x.args[2]))
    else:
        raise ValueError(op)
    memo[x] = r
    return r


def variables(xs):
    """set of var nodes occurring in the DAG roots xs"""
    seen = set()
    out = set()
    todo = [x for x in xs if isinstance(x, Sym)]
    while todo:
        x = todo.pop()
        if x in seen:
            continue
        seen.add(x)
        if x.op == "var":
            out.add(x)
            continue
        for a in x.args:
            if isinstance(a, Sym):
                todo.append(a)
    return out


def substitute(x, mapping, memo=None):
    """replace nodes by mapping[node] (bottom-up rebuild)"""
    if memo is None:
        memo = {}
    if not isinstance(x, Sym):
        return x
    if x in mapping:
        return mapping[x]
    r = memo.get(x)
    if r is not None:
        return r
    op = x.op
    if op == "var":
        r = x
    elif op == "add":
        r = addn(substitute(a, mapping, memo) for a in x.args)
    elif op == "mul":
        r = muln(substitute(a, mapping, memo) for a in x.args)
    elif op == "div":
        r = div(substitute(x.args[0], mapping, memo), substitute(x.args[1], mapping, memo))
    elif op == "pow":
        r = power(substitute(x.args[0], mapping, memo), x.args[1])
    elif op == "fn":
        r = fn(x.args[0], *[substitute(a, mapping, memo) for a in x.args[1:]])
    elif op == "clamp":
        r = clamp(substitute(x.args[0], mapping, memo), x.args[1], x.args[2])
    else:
        raise ValueError(op)
    memo[x] = r
    return r


def size(xs):
    seen = set()
    todo = [x for x in xs if isinstance(x, Sym)]
    while todo:
        x = todo.pop()
        if x in seen:
            continue
        seen.add(x)
        for a in x.args:
            if isinstance(a, Sym):
                todo.append(a)
    return len(seen)


def evalf_mag(x, env, memo=None, vmemo=None):
    """(value, magnitude): magnitude bounds the size of the terms that were added up to obtain the value
    (sum of |terms| through additions, products of magnitudes) - the scale of the rounding error."""
    if memo is None:
        memo = {}
    if vmemo is None:
        vmemo = {}
    if isinstance(x, Fraction):
        f = float(x)
        return f, abs(f)
    r = memo.get(x)
    if r is not None:
        return r
    op = x.op
    if op == "add":
        v = 0.0
        m = 0.0
        for a in x.args:
            va, ma = evalf_mag(a, env, memo, vmemo)
            v += va
            m += ma
    elif op == "mul":
        v = 1.0
        m = 1.0
        for a in x.args:
            va, ma = evalf_mag(a, env, memo, vmemo)
            v *= va
            m *= ma
    elif op == "div":
        va, ma = evalf_mag(x.args[0], env, memo, vmemo)
        vb, mb = evalf_mag(x.args[1], env, memo, vmemo)
        v = va / vb
        m = ma / abs(vb) * (mb / abs(vb))
    elif op == "pow":
        va, ma = evalf_mag(x.args[0], env, memo, vmemo)
        k = x.args[1]
        v = va ** k
        m = ma ** k if k >= 0 else (ma / abs(va)) ** (-k) * abs(v)
    else:
        v = evalf(x, env, vmemo)
        m = abs(v)
        if op == "fn" and x.args[0] in ("sin", "cos", "atan2"):
            m = max(m, 1e-3)
    r = (v, max(m, abs(v)))
    memo[x] = r
    return r
