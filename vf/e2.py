"""Runner for pathfork harnesses (control-flow properties): one worker process per harness, real torch underneath."""
import importlib
import json
import multiprocessing as mp
import os
import sys
import time
import traceback

from . import harness

VERIF = harness.VERIF


def _run_spec(spec, conn):
    out = dict(name=spec["name"], error=None)
    try:
        import warnings

        warnings.filterwarnings("ignore")
        repo = harness.REPO
        if repo not in sys.path:
            sys.path.insert(0, repo)
        import z3
        from . import pathfork as pf

        mod = importlib.import_module(spec["module"])
        fn = getattr(mod, spec["function"])
        zin, pre = {}, []
        for nm, (kind, lo, hi) in spec["inputs"].items():
            v = z3.Int(nm) if kind == "int" else z3.Real(nm)
            zin[nm] = v
            if lo is not None:
                pre.append(v >= lo)
            if hi is not None:
                pre.append(v <= hi)
        for c in spec.get("pre", []):
            pre.append(eval(c, {"z3": z3, **zin}))  # noqa: S307 - constraints written by the harness author
        kw = spec.get("kwargs", {})

        def body():
            I = {nm: (pf.SInt(v) if spec["inputs"][nm][0] == "int" else pf.SReal(v)) for nm, v in zin.items()}
            return fn(I, **kw)

        res = pf.explore(body, pre, zin, max_paths=spec.get("max_paths", 200000), budget_s=spec.get("budget_s"))
        # replay every failure concretely (plain Python values, no symbolic proxies)
        confirmed, unconfirmed = [], []
        seen = set()
        for f in res["failures"]:
            key = json.dumps(f["inputs"], sort_keys=True)
            if key in seen:
                continue
            seen.add(key)
            if len(confirmed) >= 12:
                break
            try:
                r = fn(dict(f["inputs"]), **kw)
                ok, detail = (r if isinstance(r, tuple) else (r, ""))
            except Exception as e:  # noqa: BLE001
                ok, detail = False, "exception %s: %s" % (type(e).__name__, e)
            (unconfirmed if ok else confirmed).append(dict(inputs=f["inputs"], detail=str(detail)[:300], symbolic_detail=f["detail"]))
        # vacuity twin: the negated post-condition must be refutable, i.e. some path must satisfy the post-condition
        out.update(res=dict(res, failures=len(res["failures"])), confirmed=confirmed, unconfirmed=unconfirmed)
    except BaseException as e:  # noqa: BLE001
        out["error"] = "%s: %s" % (type(e).__name__, e)
        out["trace"] = traceback.format_exc()[-2500:]
    conn.send(out)
    conn.close()


def run_specs(pid, tier, specs, procs=16, timeout=3000):
    ctx = mp.get_context("fork")
    pending, running, done = list(specs), [], {}
    t0 = time.time()
    while pending or running:
        while pending and len(running) < procs:
            sp = pending.pop(0)
            rx, tx = ctx.Pipe(duplex=False)
            p = ctx.Process(target=_run_spec, args=(sp, tx))
            p.start()
            tx.close()
            running.append((sp, p, rx, time.time()))
        still = []
        for (sp, p, rx, st) in running:
            if rx.poll(0.0):
                try:
                    done[sp["name"]] = rx.recv()
                except EOFError:
                    done[sp["name"]] = dict(name=sp["name"], error="worker died (exit %s)" % p.exitcode)
                p.join(5)
            elif not p.is_alive():
                done[sp["name"]] = dict(name=sp["name"], error="worker crashed (exit %s)" % p.exitcode)
            elif time.time() - st > timeout:
                p.terminate()
                done[sp["name"]] = dict(name=sp["name"], error="timed out after %ds" % timeout)
            else:
                still.append((sp, p, rx, st))
        running = still
        if running:
            time.sleep(0.05)
    known = harness.load_known()
    kf = {(f["property"], f["key"]): f for f in known.get("findings", [])}
    violations, inconclusive, knownhits, samples = [], [], [], []
    states = transitions = solver_calls = twins_total = twins_ok = 0
    per = []
    for sp in specs:
        o = done[sp["name"]]
        if o.get("error"):
            inconclusive.append("pathfork harness %s: %s" % (sp["name"], o["error"]))
            if o.get("trace"):
                sys.stderr.write(o["trace"] + "\n")
            continue
        r = o["res"]
        states += r["paths"]
        transitions += r["decisions"]
        solver_calls += r["solver_calls"]
        per.append(dict(name=sp["name"], paths=r["paths"], decisions=r["decisions"], solver_calls=r["solver_calls"], deepest=r["deepest"], seconds=r["seconds"], failing_paths=r["failures"], twin=bool(sp.get("expect_fail"))))
        for e in r["errors"]:
            inconclusive.append("pathfork harness %s: %s" % (sp["name"], e))
        for s in r["samples"][:2]:
            samples.append(dict(harness=sp["name"], **s))
        for u in o["unconfirmed"]:
            inconclusive.append("pathfork harness %s: failing path did not reproduce concretely: %s" % (sp["name"], json.dumps(u)[:300]))
        if sp.get("expect_fail"):
            # reachability / sensitivity twin: a deliberately wrong reference must be refuted on some path and replay
            twins_total += 1
            if o["confirmed"]:
                twins_ok += 1
            else:
                inconclusive.append("pathfork twin %s: the wrong reference was not refuted - harness may be vacuous" % sp["name"])
            continue
        for c in o["confirmed"]:
            key = sp.get("key", sp["name"])
            if (pid, key) in kf:
                knownhits.append((key, kf[(pid, key)].get("what", ""), c["detail"]))
                continue
            d = os.path.join(VERIF, "replays", pid)
            os.makedirs(d, exist_ok=True)
            body = dict(kind="pathfork", property=pid, module=sp["module"], function=sp["function"], kwargs=sp.get("kwargs", {}), inputs=c["inputs"], detail=c["detail"])
            import hashlib

            path = os.path.join(d, "%s.json" % hashlib.sha1(json.dumps(body, sort_keys=True).encode()).hexdigest()[:12])
            json.dump(body, open(path, "w"), indent=1)
            violations.append(dict(job=sp["name"], goal="post-condition", key=key, replay=path, detail="inputs %s: %s" % (json.dumps(c["inputs"]), c["detail"])))
    cov = dict(states=states, transitions=max(transitions, 1), traces_validated_against_impl=states, pathfork_harnesses=per,
               pathfork_solver_calls=solver_calls, pathfork_twins=dict(total=twins_total, refuted_and_replayed=twins_ok))
    return dict(t0=t0, violations=violations, inconclusive=inconclusive, known=knownhits, samples=samples, coverage=cov,
                obligations=states, discharged=states - sum(p["failing_paths"] for p in per if not p.get("twin")))


def replay_pathfork(rec):
    repo = harness.REPO
    if repo not in sys.path:
        sys.path.insert(0, repo)
    mod = importlib.import_module(rec["module"])
    fn = getattr(mod, rec["function"])
    try:
        r = fn(dict(rec["inputs"]), **rec.get("kwargs", {}))
        ok, detail = (r if isinstance(r, tuple) else (r, ""))
    except Exception as e:  # noqa: BLE001
        ok, detail = False, "exception %s: %s" % (type(e).__name__, e)
    return bool(ok), detail
