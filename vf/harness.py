"""Check driver: runs scenario jobs in worker processes (symbolic backend), replays every
counterexample candidate on the real code (real torch, subprocess), cross-validates the shim
against real torch at a random parameter point per job, writes evidence, prints
KNOWN-FINDING / VIOLATION lines and returns the exit code (0 holds, 1 violation, 2 inconclusive)."""
import hashlib
import importlib
import json
import multiprocessing as mp
import os
import random
import subprocess
import sys
import time
import traceback

VERIF = os.path.dirname(os.path.dirname(os.path.abspath(__file__)))
REPO = os.environ.get("VERIF_REPO", "/repo")
PY = "/venv/bin/python"
REL_TOL = 1e-7
ABS_TOL = 1e-10


def pyenv():
    env = dict(os.environ)
    env["PYTHONPATH"] = os.pathsep.join([VERIF, os.path.join(VERIF, ".overlay"), REPO])
    env["VERIF_REPO"] = REPO
    env.setdefault("OMP_NUM_THREADS", "1")
    env.setdefault("MKL_NUM_THREADS", "1")
    env["PYTHONDONTWRITEBYTECODE"] = "1"
    env["PYTHONHASHSEED"] = "0"
    return env


# ------------------------------------------------------------------------------------------------
class Goals:
    """collector handed to scenario functions (both backends)"""

    def __init__(self, B, problem=None):
        self.B = B
        self.problem = problem
        self.symbolic = B.symbolic
        self.facts = []  # dict(name, ok, detail, key)
        self.evals = {}  # real mode: name -> dict(kind, lib, ref, ok)
        self.twins = set()
        self.keys = {}
        self.order = []
        self.infos = {}
        self.libs = {}  # symbolic mode: name -> lib DAG (for the shim self-test)
        self.custom = []

    def _reg(self, name, key):
        if name in self.keys:
            raise RuntimeError("duplicate goal name %r" % name)
        self.keys[name] = key or name
        self.order.append(name)

    def eq(self, name, lib, ref, key=None, tol=None):
        """lib (computed by the library) must equal ref (the oracle) for all parameter values"""
        self._reg(name, key)
        if self.symbolic:
            self.problem.eq(name, lib, ref, meta=dict(tol=tol or REL_TOL))
            self.libs[name] = lib
        else:
            lib, ref = float(lib), float(ref)
            t = tol or REL_TOL
            ok = abs(lib - ref) <= t * (abs(lib) + abs(ref)) + (ABS_TOL if t >= 1e-9 else 1e-300)
            self.evals[name] = dict(kind="eq", lib=lib, ref=ref, ok=bool(ok))

    def twin(self, name, lib, wrong_ref):
        """sensitivity twin: lib must NOT be identically wrong_ref (query must come back sat and replay)"""
        self._reg(name, None)
        self.twins.add(name)
        if self.symbolic:
            self.problem.eq(name, lib, wrong_ref)
        else:
            lib, ref = float(lib), float(wrong_ref)
            ok = abs(lib - ref) <= REL_TOL * (abs(lib) + abs(ref)) + ABS_TOL
            self.evals[name] = dict(kind="twin", lib=lib, ref=ref, ok=bool(ok))

    def nonneg(self, name, x, key=None):
        self._reg(name, key)
        if self.symbolic:
            self.problem.nonneg(name, x)
        else:
            x = float(x)
            self.evals[name] = dict(kind="nonneg", lib=x, ref=0.0, ok=bool(x >= -ABS_TOL))

    def pos(self, name, x, key=None):
        self._reg(name, key)
        if self.symbolic:
            self.problem.pos(name, x)
        else:
            x = float(x)
            self.evals[name] = dict(kind="pos", lib=x, ref=0.0, ok=bool(x > 0))

    def fact(self, name, ok, detail="", key=None):
        """a concrete fact decided by executing the code (shape, type, exception, aliasing)"""
        self._reg(name, key)
        self.facts.append(dict(name=name, ok=bool(ok), detail=str(detail)[:300]))
        if not self.symbolic:
            self.evals[name] = dict(kind="fact", ok=bool(ok), detail=str(detail)[:300])

    def call(self, name, fn, *a, key=None, **k):
        """runs fn; an exception raised by the library is recorded as a failed fact `name`"""
        try:
            r = fn(*a, **k)
        except Exception as e:  # noqa: BLE001 - library exceptions are the observation here
            if type(e).__name__ in ("UnsupportedOp", "SymbolicTruthValue", "Unsupported"):
                raise
            tb = traceback.extract_tb(e.__traceback__)
            where = ""
            for fr in reversed(tb):
                if "/qucumber/" in fr.filename:
                    where = " at %s:%d" % (fr.filename.split("/qucumber/")[-1], fr.lineno)
                    break
            self.fact(name, False, "%s: %s%s" % (type(e).__name__, e, where), key=key)
            return None
        self.fact(name, True, "call returned", key=key)
        return r

    def info(self, k, v):
        self.infos[k] = v

    def solver_goal(self, name, verdict, seconds=0.0, cex=None, detail="", key=None, twin=False):
        """(symbolic backend) a goal the scenario put to z3 itself: verdict 'unsat' (holds) / 'sat' (+ cex theta) / 'unknown'"""
        self._reg(name, key)
        if twin:
            self.twins.add(name)
        self.custom.append(dict(name=name, kind="smt", verdict=verdict, seconds=round(seconds, 4), cex=cex or {}, detail=detail, problem="custom"))


# ------------------------------------------------------------------------------------------------
def run_scenario(fn, B, G, kwargs):
    """runs the scenario; an exception that surfaces from QuCumber's own code (not from the shim's 'cannot encode'
    signals) is recorded as the failed fact `no_library_exception`, so that it is replayed on the real torch"""
    try:
        fn(B, G, **kwargs)
    except Exception as e:  # noqa: BLE001
        if type(e).__name__ in ("UnsupportedOp", "SymbolicTruthValue", "Unsupported", "Inconclusive"):
            raise
        tb = traceback.extract_tb(e.__traceback__)
        lib = [fr for fr in tb if "/qucumber/" in fr.filename]
        if not lib:
            raise
        where = "%s:%d" % (lib[-1].filename.split("/qucumber/")[-1], lib[-1].lineno)
        if "no_library_exception" not in G.keys:
            G.fact("no_library_exception", False, "%s: %s (raised under %s)" % (type(e).__name__, e, where))
        return False
    if "no_library_exception" not in G.keys:
        G.fact("no_library_exception", True, "")
    return True


def _load_scenario(modname, fname):
    mod = importlib.import_module(modname)
    return getattr(mod, fname)


def _worker(job):
    """runs in a fresh process: symbolic backend"""
    t0 = time.time()
    modname, fname, kwargs, seed, opts = job["module"], job["scenario"], job["kwargs"], job["seed"], job.get("opts", {})
    out = dict(job=job["name"], results=[], facts=[], error=None)
    try:
        sys.setrecursionlimit(20000)
        from .backend import SymBackend
        from .solve import Problem
        from . import sym as S

        B = SymBackend(REPO)
        prob = Problem(job["name"], seed=seed, timeout_ms=opts.get("timeout_ms", 60000),
                       assume_prob_clamp=opts.get("assume_prob_clamp", False),
                       env_range=opts.get("env_range", 1.5))
        prob.var_ranges = [tuple(x) for x in opts.get("var_ranges", [])]
        G = Goals(B, prob)
        fn = _load_scenario(modname, fname)
        t1 = time.time()
        run_scenario(fn, B, G, kwargs)
        t_exec = time.time() - t1
        prob.twin_names = set(G.twins)
        results = prob.solve() + G.custom
        # shim self-test data: library-side values at a random rational parameter point
        rnd = random.Random(seed * 31 + 5)
        allvars = sorted(S.variables([g.a for g in prob.goals] + [g.b for g in prob.goals if g.b is not None]),
                         key=lambda v: v.args[0])
        theta = prob._random_env(rnd, allvars)
        libvals = {}
        lmemo, vmemo = {}, {}
        for name, dag in G.libs.items():
            try:
                libvals[name] = S.evalf_mag(dag, theta, lmemo, vmemo)  # (value, magnitude of the summed terms)
            except Exception:  # noqa: BLE001
                pass
        for r in results:
            r["twin"] = r["name"] in G.twins
            r["key"] = G.keys.get(r["name"], r["name"])
        from . import solve as _solve

        out["xsolver"] = _solve.cross_check(budget_s=float(opts.get("xsolver_budget_s", 16 if job.get("tier") == "quick" else 90)))
        out.update(
            results=results, facts=[dict(f, key=G.keys[f["name"]]) for f in G.facts], stats=prob.stats,
            assumptions=getattr(prob, "assumptions", []), theta=theta, libvals=libvals, infos=G.infos,
            exec_s=round(t_exec, 3), dag_nodes=S._COUNTER[0], wall_s=round(time.time() - t0, 3),
        )
    except BaseException as e:  # noqa: BLE001
        out["error"] = "%s: %s" % (type(e).__name__, e)
        out["trace"] = traceback.format_exc()[-3000:]
        out["wall_s"] = round(time.time() - t0, 3)
    return out


def _child(job, conn):
    import threading
    import resource

    try:  # a runaway symbolic expansion must die with MemoryError (-> inconclusive), not take the machine down
        lim = int(os.environ.get("VERIF_JOB_MEM_GB", "20")) << 30
        resource.setrlimit(resource.RLIMIT_AS, (lim, lim))
    except (ValueError, OSError):
        pass

    res = {}

    def body():
        res["out"] = _worker(job)

    # deep expression DAGs recurse deeply (canon / diff / evalf): run on a thread with a large C stack
    threading.stack_size(1024 * 1024 * 1024)
    t = threading.Thread(target=body)
    t.start()
    t.join()
    try:
        conn.send(res.get("out", dict(job=job["name"], results=[], facts=[], error="worker thread died")))
    finally:
        conn.close()


def run_jobs(ctx, jobs, procs, job_timeout):
    """one process per job, at most `procs` at a time; a crashed or overdue worker is reported, never awaited"""
    pending = list(jobs)
    running = []
    done = {}
    while pending or running:
        while pending and len(running) < procs:
            j = pending.pop(0)
            rx, tx = ctx.Pipe(duplex=False)
            p = ctx.Process(target=_child, args=(j, tx))
            p.start()
            tx.close()
            running.append((j, p, rx, time.time()))
        still = []
        for (j, p, rx, st) in running:
            if rx.poll(0.0):
                try:
                    done[j["name"]] = rx.recv()
                except EOFError:
                    done[j["name"]] = dict(job=j["name"], results=[], facts=[], error="worker died without a result (exit code %s)" % p.exitcode)
                p.join(5)
                continue
            if not p.is_alive():
                if rx.poll(0.2):
                    try:
                        done[j["name"]] = rx.recv()
                        continue
                    except EOFError:
                        pass
                done[j["name"]] = dict(job=j["name"], results=[], facts=[], error="worker crashed (exit code %s)" % p.exitcode)
                continue
            if time.time() - st > job_timeout:
                p.terminate()
                p.join(5)
                done[j["name"]] = dict(job=j["name"], results=[], facts=[], error="job timed out after %ds" % job_timeout)
                continue
            still.append((j, p, rx, st))
        running = still
        if running:
            time.sleep(0.05)
    return [(j, done[j["name"]]) for j in jobs]


def real_eval(job, theta, timeout=600):
    """runs the scenario on the real torch at parameter point theta (subprocess)"""
    payload = json.dumps(dict(module=job["module"], scenario=job["scenario"], kwargs=job["kwargs"], theta=theta))
    p = subprocess.run([PY, "-m", "vf.realrun"], input=payload, capture_output=True, text=True, env=pyenv(),
                       cwd=VERIF, timeout=timeout)
    if p.returncode != 0:
        return dict(error="realrun exit %d: %s" % (p.returncode, p.stderr[-2000:]))
    try:
        return json.loads(p.stdout.strip().split("\n")[-1])
    except Exception as e:  # noqa: BLE001
        return dict(error="realrun output unparsable: %r / %s" % (e, p.stdout[-500:]))


def _real_eval_star(args):
    return real_eval(*args)


# ------------------------------------------------------------------------------------------------
def load_known():
    p = os.path.join(VERIF, "known_findings.json")
    if not os.path.exists(p):
        return dict(findings=[], fixed=[])
    return json.load(open(p))


class Report:
    def __init__(self, pid, tier, seed, meta):
        self.pid, self.tier, self.seed, self.meta = pid, tier, seed, meta
        self.t0 = time.time()
        self.violations = []
        self.known = []
        self.inconclusive = []
        self.lines = []

    def say(self, s):
        print(s, flush=True)


def write_replay(pid, job, goal_name, theta, lib, ref, detail):
    d = os.path.join(VERIF, "replays", pid)
    os.makedirs(d, exist_ok=True)
    body = dict(property=pid, module=job["module"], scenario=job["scenario"], kwargs=job["kwargs"], goal=goal_name,
                theta=theta, library_value=lib, reference_value=ref, detail=detail,
                how="cd /verif && bin/replay %s" % os.path.join("replays", pid, "<this file>"))
    h = hashlib.sha1(json.dumps(body, sort_keys=True).encode()).hexdigest()[:12]
    path = os.path.join(d, "%s.json" % h)
    json.dump(body, open(path, "w"), indent=1, sort_keys=True)
    return path


def run_check(pid, tier, jobs, meta, seed=0, procs=None, job_timeout=None, extra=None):
    """jobs: list of dict(name, module, scenario, kwargs, opts?) ; meta: static description for the evidence.
    extra: optional callable(report_dict) -> dict(violations=[...], inconclusive=[...], coverage={...}) for
    non-E1 parts (pathfork / CrossHair) already run by the caller."""
    t0 = (extra or {}).get("t0", time.time())
    subprocess.run([os.path.join(VERIF, "bin", "ensure_env.sh")], check=True)
    procs = procs or min(16, os.cpu_count() or 4)
    job_timeout = job_timeout or (900 if tier == "quick" else 3600)
    for i, j in enumerate(jobs):
        j.setdefault("seed", seed * 1000 + i)
        j.setdefault("opts", {})
        j.setdefault("tier", tier)
    if os.environ.get("VERIF_ONLY_JOBS"):  # development aid: run a subset of the jobs (evidence then describes that subset only)
        import re

        jobs = [j for j in jobs if re.search(os.environ["VERIF_ONLY_JOBS"], j["name"])]
    known = load_known()
    kf = {(f["property"], f["key"]): f for f in known.get("findings", [])}
    ctx = mp.get_context("fork")
    inconclusive = []
    outs = run_jobs(ctx, jobs, procs, job_timeout)
    # ---- triage --------------------------------------------------------------------------------
    n_oblig = n_unsat = n_sat = n_unknown = n_twins = n_twins_ok = n_skipped = 0
    solver_s = nf_s = 0.0
    candidates = []  # (job, out, name, kind, cex theta)
    samples = []
    assumptions = set()
    fact_count = fact_ok = 0
    selftests = []
    seen_err = set()
    xsum = {}
    for j, o in outs:
        if o.get("error"):
            inconclusive.append("job %s: %s" % (j["name"], o["error"]))
            if o.get("trace") and o["error"] not in seen_err:
                seen_err.add(o["error"])
                sys.stderr.write(o["trace"] + "\n")
            continue
        xs = o.get("xsolver") or {}
        for k in ("queries", "checked", "agreed", "second_unknown", "rejected"):
            xsum[k] = xsum.get(k, 0) + xs.get(k, 0)
        xsum["seconds"] = round(xsum.get("seconds", 0.0) + xs.get("seconds", 0.0), 2)
        for sname in xs.get("solvers", []):
            if sname not in xsum.setdefault("solvers", []):
                xsum["solvers"].append(sname)
        for dmsg in xs.get("disagreements", []):
            inconclusive.append("job %s: second solver disagrees: %s" % (j["name"], dmsg))
        st = o.get("stats", {})
        solver_s += st.get("solver_s", 0.0) + st.get("oracle_s", 0.0)
        nf_s += st.get("nf_s", 0.0)
        for a in o.get("assumptions", []):
            assumptions.add(a)
        for r in o["results"]:
            if r.get("twin"):
                n_twins += 1
                if r["verdict"] == "sat":
                    n_twins_ok += 1
                    candidates.append((j, o, r["name"], "twin", r["cex"]))
                else:
                    inconclusive.append("job %s twin %s: expected sat, got %s (%s) - harness may be vacuous" % (j["name"], r["name"], r["verdict"], r.get("detail", "")))
                continue
            n_oblig += 1
            if r["verdict"] == "unsat":
                n_unsat += 1
                if len(samples) < 6 and r is o["results"][0]:
                    samples.append(dict(job=j["name"], goal=r["name"], verdict="unsat", residual_terms=r.get("residual_terms", 0), seconds=r["seconds"]))
            elif r["verdict"] == "sat":
                n_sat += 1
                candidates.append((j, o, r["name"], "goal", r["cex"]))
            elif r["verdict"] == "skipped":
                n_skipped += 1
            else:
                n_unknown += 1
                inconclusive.append("job %s goal %s: %s" % (j["name"], r["name"], r.get("detail", "unknown")))
        for f in o["facts"]:
            fact_count += 1
            if f["ok"]:
                fact_ok += 1
            else:
                candidates.append((j, o, f["name"], "fact", o.get("theta", {})))
        if o.get("libvals"):
            selftests.append((j, o))
    # ---- real-torch runs: replays and shim self-test, in parallel --------------------------------
    tasks = []
    for (j, o, name, kind, theta) in candidates:
        tasks.append(("replay", j, o, name, kind, theta))
    st_limit = len(selftests) if tier == "thorough" else min(len(selftests), 12)
    rnd = random.Random(seed)
    for (j, o) in (selftests if st_limit == len(selftests) else rnd.sample(selftests, st_limit)):
        tasks.append(("selftest", j, o, None, None, o["theta"]))
    # float conformance at extreme parameter points (opt-in per job: opts["extreme"] = dict(scale=R, points=K)): the identities
    # are proved over the reals; here the REAL library is run in floating point at parameter points of magnitude up to R (the
    # property's stated range) and every goal is evaluated there.  This is a concrete replay, not a solver verdict: it is the
    # guard against mathematically equal but numerically unstable reformulations, and is reported separately in the evidence.
    n_extreme = 0
    for j, o in outs:
        exo = j.get("opts", {}).get("extreme")
        if not exo or o.get("error") or o.get("theta") is None:
            continue
        vr = [tuple(x) for x in j.get("opts", {}).get("var_ranges", [])]
        for k in range(int(exo.get("points", 2))):
            th = {}
            for nm in sorted(o["theta"]):
                rg = next(((lo, hi) for pref, lo, hi in vr if nm.startswith(pref)), None)
                if rg is not None:
                    th[nm] = rnd.uniform(*rg)
                else:
                    th[nm] = round(rnd.uniform(-1.0, 1.0) * float(exo.get("scale", 10.0)), 3)
            tasks.append(("extreme", j, o, None, None, th))
            n_extreme += 1
    # group identical (job, theta) evaluations
    uniq = {}
    for t in tasks:
        k = (t[1]["name"], json.dumps(t[5], sort_keys=True))
        uniq.setdefault(k, (t[1], t[5]))
    realres = {}
    if uniq:
        with ctx.Pool(processes=min(procs, len(uniq))) as pool:
            keys = list(uniq.keys())
            vals = pool.map(_real_eval_star, [uniq[k] for k in keys])
            realres = dict(zip(keys, vals))
    violations, knownhits, twins_replayed, st_ok, st_points = [], [], 0, 0, 0
    ext_goals = 0
    seen_v = set()
    for (what, j, o, name, kind, theta) in tasks:
        rr = realres[(j["name"], json.dumps(theta, sort_keys=True))]
        if rr.get("error"):
            inconclusive.append("job %s: real-torch run failed: %s" % (j["name"], rr["error"]))
            continue
        ev = rr["evals"]
        if what == "extreme":
            bad = 0
            twn = {r["name"] for r in o["results"] if r.get("twin")}
            for gname, e in ev.items():
                if gname in twn or e.get("kind") == "twin" or e.get("ok", True):
                    continue
                key = next((r.get("key") for r in o["results"] if r["name"] == gname), None) or next((f.get("key") for f in o["facts"] if f["name"] == gname), None) or gname
                detail = "floating-point run of the real library at a concrete (extreme) parameter point: " + (e.get("detail") or ("library %.12g vs reference %.12g" % (e.get("lib", float("nan")), e.get("ref", float("nan")))))
                if (pid, key) in kf:
                    if (pid, key) not in seen_v:
                        knownhits.append((key, kf[(pid, key)].get("what", ""), detail))
                        seen_v.add((pid, key))
                    continue
                bad += 1
                if bad <= 5:
                    path = write_replay(pid, j, gname, theta, e.get("lib"), e.get("ref"), detail)
                    violations.append(dict(job=j["name"], goal=gname, key=key, replay=path, detail=detail))
            ext_goals += len(ev)
            continue
        if what == "selftest":
            bad = []
            cnt = 0
            for gname, (lv, mag) in o["libvals"].items():
                e = ev.get(gname)
                if e is None or "lib" not in e:
                    continue
                cnt += 1
                if not abs(e["lib"] - lv) <= 1e-8 * (abs(e["lib"]) + abs(lv) + mag) + 1e-10:
                    bad.append((gname, lv, e["lib"]))
            st_points += cnt
            if bad:
                inconclusive.append("shim self-test mismatch in job %s: %s" % (j["name"], bad[:3]))
            else:
                st_ok += 1
            continue
        e = ev.get(name)
        if e is None:
            inconclusive.append("job %s: goal %s missing in real-torch run" % (j["name"], name))
            continue
        if kind == "twin":
            if e["ok"]:
                inconclusive.append("job %s twin %s: solver model did not replay as a numeric difference" % (j["name"], name))
            else:
                twins_replayed += 1
            continue
        if e["ok"]:
            symd = next((f.get("detail", "") for f in o["facts"] if f["name"] == name), "")
            inconclusive.append("job %s goal %s: counterexample did NOT reproduce on real torch (encoding suspect): %s%s" % (
                j["name"], name, json.dumps(e)[:200], (" | under the model: %s" % symd[:260]) if symd else ""))
            continue
        key = None
        for r in o["results"]:
            if r["name"] == name:
                key = r.get("key")
        for f in o["facts"]:
            if f["name"] == name:
                key = f.get("key")
        key = key or name
        detail = e.get("detail") or ("library %.12g vs reference %.12g" % (e.get("lib", float("nan")), e.get("ref", float("nan"))))
        if (pid, key) in kf:
            if (pid, key) not in seen_v:
                knownhits.append((key, kf[(pid, key)].get("what", ""), detail))
                seen_v.add((pid, key))
            continue
        path = write_replay(pid, j, name, theta, e.get("lib"), e.get("ref"), detail)
        violations.append(dict(job=j["name"], goal=name, key=key, replay=path, detail=detail))
    ex = extra or {}
    violations += ex.get("violations", [])
    knownhits += ex.get("known", [])
    inconclusive += ex.get("inconclusive", [])
    # ---- output ---------------------------------------------------------------------------------
    for key, what, detail in knownhits:
        print("KNOWN-FINDING: property=%s %s [%s] (%s)" % (pid, what, key, detail), flush=True)
    shown = set()
    for n, v in enumerate(violations):
        if n == 10:
            print("  ... and %d more violations (all listed in the evidence file)" % (len(violations) - 10), flush=True)
            break
        print("VIOLATION property=%s replay=%s" % (pid, v["replay"]), flush=True)
        print("  violated: %s / %s: %s" % (v.get("job"), v.get("goal"), v.get("detail")), flush=True)
    for s in inconclusive[:40]:
        print("INCONCLUSIVE: %s" % s, flush=True)
    wall = time.time() - t0
    cov = dict(
        obligations=n_oblig + fact_count + ex.get("obligations", 0),
        discharged=n_unsat + fact_ok + ex.get("discharged", 0),
        checker_cmd="bin/check %s %s" % (pid, tier),
        trusted_base=["vf/symtorch.py (torch model, cross-validated against real torch each run)", "vf/poly.py + vf/solve.py (normal-form rewriting, float cross-check per query)", "z3 5.1.0"],
        explanation=meta.get("explanation", ""),
        evaluations=n_oblig + fact_count + ex.get("obligations", 0),
        distinct_nontrivial=n_oblig + fact_count + ex.get("obligations", 0),
        rule="one obligation = one solver query (identity / sign goal over all real parameter values, residual after normal-form reduction) or one executed structural fact; all are distinct (distinct goal names per job)",
        samples=samples + ex.get("samples", []),
        solver_queries=dict(total=n_oblig + n_twins, unsat=n_unsat, sat=n_sat + n_twins_ok, unknown=n_unknown, skipped_after_counterexamples=n_skipped),
        facts=dict(total=fact_count, ok=fact_ok),
        twins=dict(total=n_twins, sat=n_twins_ok, replayed_as_numeric_difference=twins_replayed),
        shim_selftest=dict(jobs_cross_checked=st_ok, values_compared=st_points),
        extreme_point_float_conformance=dict(real_runs=n_extreme, goal_values_checked=ext_goals,
                                             note="concrete runs of the real library at parameter magnitudes up to the property's stated range; not a solver verdict"),
        second_solver=dict(xsum, note="every query text answered by the z3 5.1 API is re-run through the listed solver binaries (one incremental process per job); 'checked' counts query x solver pairs; a sat/unsat disagreement makes the check inconclusive"),
        solver_time_s=round(solver_s, 3),
        normal_form_time_s=round(nf_s, 3),
        functions_encoded=meta.get("functions", []),
        bounds=meta.get("bounds", {}).get(tier, meta.get("bounds", {})),
        outside_claim=meta.get("outside", []),
        stubs=meta.get("stubs", []),
        jobs=[dict(name=j["name"], wall_s=o.get("wall_s"), exec_s=o.get("exec_s"), queries=len(o.get("results", [])), generators=o.get("stats", {}).get("generators")) for j, o in outs],
        known_findings_hit=[k for k, _, _ in knownhits],
        violations=[dict(job=v.get("job"), goal=v.get("goal"), detail=v.get("detail"), replay=v.get("replay")) for v in violations[:200]],
        inconclusive=inconclusive[:40],
    )
    cov.update(ex.get("coverage", {}))
    evid = dict(
        property_id=pid, tier=tier, seed=seed, level=meta.get("level", "other"), coverage=cov,
        assumptions=sorted(assumptions)[:60] + meta.get("assumptions", []), wall_s=round(wall, 2), violations=len(violations),
    )
    # evidence describes a run against /repo itself; a run against a scratch copy (bin/try_seed) writes into that copy instead
    edir = os.path.join(VERIF, "evidence") if REPO == "/repo" else os.path.join(REPO, ".evidence")
    os.makedirs(edir, exist_ok=True)
    json.dump(evid, open(os.path.join(edir, "%s.json" % pid), "w"), indent=1)
    print("%s %s: obligations=%d discharged=%d sat=%d unknown=%d facts=%d/%d twins=%d/%d selftest_jobs=%d wall=%.1fs" % (
        pid, tier, cov["obligations"], cov["discharged"], n_sat, n_unknown, fact_ok, fact_count, twins_replayed, n_twins, st_ok, wall), flush=True)
    if violations:
        return 1
    if inconclusive:
        return 2
    return 0
