"""Two interchangeable backends for scenario code.

SymBackend : symtorch installed as torch, parameters are symbolic variables (vf.sym), oracle
             arithmetic builds Sym DAGs.
RealBackend: the real torch, parameters are floats from a parameter point theta, oracle arithmetic
             is Python float/complex.  Used for replaying counterexamples and for the differential
             self-test of the shim (same scenario code, both backends, compare).
"""
import cmath
import math
import zlib
from fractions import Fraction
import numpy as np


def default_theta(name):
    """deterministic non-degenerate default for parameters a counterexample does not constrain"""
    if name == "lr" or name.startswith("lr["):
        return 0.125  # learning rates must be positive for the real optimizers
    h = zlib.crc32(name.encode()) % 19
    return (h - 9) / 8.0 if h != 9 else 0.625


class SymOps:
    symbolic = True

    def __init__(self):
        from . import sym as S

        self.S = S

    def frac(self, a, b=1):
        return Fraction(a, b)

    def lit(self, x):
        """a literal quoted from the library (float lifted exactly)"""
        return self.S.lift(x)

    def exp(self, x):
        return self.S.fn("exp", x)

    def log(self, x):
        return self.S.fn("log", x)

    def cos(self, x):
        return self.S.fn("cos", x)

    def sin(self, x):
        return self.S.fn("sin", x)

    def sqrt(self, x):
        return self.S.fn("sqrt", x)

    def atan2(self, y, x):
        return self.S.fn("atan2", y, x)

    def abs(self, x):
        return self.S.fn("abs", x)

    def cplx(self, re, im=0):
        return self.S.SymC(re, im)

    def cexp(self, z):
        return self.S.SymC.of(z).exp()

    def re(self, z):
        return self.S.real_of(z)

    def im(self, z):
        return self.S.imag_of(z)

    def conj(self, z):
        return self.S.SymC.of(z).conjugate()

    def abs2(self, z):
        return self.S.SymC.of(z).abs2()

    def sqrt2(self):
        return self.S.SQRT2


class FloatOps:
    symbolic = False

    def frac(self, a, b=1):
        return a / b

    def lit(self, x):
        return float(x)

    exp = staticmethod(math.exp)
    log = staticmethod(math.log)
    cos = staticmethod(math.cos)
    sin = staticmethod(math.sin)
    sqrt = staticmethod(math.sqrt)
    atan2 = staticmethod(math.atan2)
    abs = staticmethod(abs)

    def cplx(self, re, im=0):
        return complex(re, im)

    def cexp(self, z):
        return cmath.exp(z)

    def re(self, z):
        return complex(z).real

    def im(self, z):
        return complex(z).imag

    def conj(self, z):
        return complex(z).conjugate()

    def abs2(self, z):
        z = complex(z)
        return z.real * z.real + z.imag * z.imag

    def sqrt2(self):
        return math.sqrt(2)


class SymBackend:
    symbolic = True

    def __init__(self, repo=None):
        from . import shim, sym as S

        self.torch = shim.install(repo)
        self.S = S
        self.shim = shim
        self.O = SymOps()
        self.np = np

    def params(self, tag, shape):
        a = np.empty(shape, dtype=object)
        for idx in np.ndindex(*shape):
            a[idx] = self.S.var("%s[%s]" % (tag, ",".join(map(str, idx))))
        return a

    def var(self, name):
        return self.S.var(name)

    def load(self, param, arr):
        """overwrite a module parameter in place with the given scalars"""
        param.a[...] = arr

    def tensor(self, arr, dtype=None):
        """float tensor from an array of scalars (Sym / Fraction / numbers)"""
        a = np.asarray(arr, dtype=object)
        return self.torch.Tensor(_raw=self.torch._lift_arr(a), dtype=dtype or self.torch.double)

    def scalars(self, t):
        """object ndarray of the entries of a tensor"""
        if isinstance(t, self.torch.Tensor):
            return t.a
        return np.asarray(t, dtype=object)

    def is_tensor(self, x):
        return isinstance(x, self.torch.Tensor)

    def is_plain_number(self, x):
        if isinstance(x, (bool, np.bool_)):
            return False
        return isinstance(x, (self.S.Sym, Fraction, int, float, np.floating, np.integer))

    # -- nondeterminism stubs (DESIGN.md C05/C06/C07): the harness scripts every random draw ------------
    def stub_bernoulli(self, fn):
        """fn(p: ndarray of probabilities) -> ndarray of 0/1 outcomes of the same shape"""
        self.torch.RNG.bernoulli_fn = lambda p: np.asarray(fn(p))

    def stub_randperm(self, fn):
        self.torch.RNG.randperm_fn = lambda n: np.asarray(fn(n))

    def stub_randint(self, fn):
        self.torch.RNG.randint_fn = lambda high, size: np.asarray(fn(high, size))

    def stub_randn(self, fn):
        self.torch.RNG.randn_fn = fn


class RealBackend:
    symbolic = False

    def __init__(self, theta=None, repo=None):
        import sys, os

        repo = repo or os.environ.get("VERIF_REPO", "/repo")
        if repo not in sys.path:
            sys.path.insert(0, repo)
        import warnings

        warnings.filterwarnings("ignore")
        import torch
        import types

        if "scipy" not in sys.modules:
            try:
                import scipy.linalg  # noqa: F401
            except ImportError:
                # qucumber.utils.training_statistics imports scipy.linalg.sqrtm but never calls it; scipy is not installed
                sl = types.ModuleType("scipy.linalg")
                sl.sqrtm = None
                sp = types.ModuleType("scipy")
                sp.linalg = sl
                sys.modules["scipy"] = sp
                sys.modules["scipy.linalg"] = sl
        import qucumber
        import qucumber.nn_states.neural_state as ns

        src = os.path.realpath(qucumber.__file__)
        if not src.startswith(os.path.realpath(repo) + os.sep):
            raise RuntimeError("qucumber imported from %s, not from %s" % (src, repo))
        ns.tqdm = lambda it, **kw: it
        self.torch = torch
        self.theta = dict(theta or {})
        self.O = FloatOps()
        self.np = np

    def _val(self, name):
        v = self.theta.get(name)
        if v is None:
            v = default_theta(name)
            self.theta[name] = v
        return float(v)

    def params(self, tag, shape):
        a = np.empty(shape, dtype=float)
        for idx in np.ndindex(*shape):
            a[idx] = self._val("%s[%s]" % (tag, ",".join(map(str, idx))))
        return a

    def var(self, name):
        return self._val(name)

    def load(self, param, arr):
        # written through .data, as QuCumber users set parameters by hand (does not bump the autograd version
        # counter; the symbolic backend's load has the same meaning)
        param.data.copy_(self.torch.tensor(np.asarray(arr, dtype=float), dtype=param.dtype))

    def tensor(self, arr, dtype=None):
        return self.torch.tensor(np.asarray(arr, dtype=float), dtype=dtype or self.torch.double)

    def scalars(self, t):
        if isinstance(t, self.torch.Tensor):
            return t.detach().cpu().numpy()
        return np.asarray(t)

    def is_tensor(self, x):
        return isinstance(x, self.torch.Tensor)

    def is_plain_number(self, x):
        if isinstance(x, (bool, np.bool_)):
            return False
        return isinstance(x, (int, float, np.floating, np.integer))

    def stub_bernoulli(self, fn):
        torch = self.torch

        def fake(p, out=None, **kw):
            r = torch.tensor(np.asarray(fn(p.detach().cpu().numpy().copy()), dtype=float), dtype=p.dtype)
            if out is not None:
                out.copy_(r)
                return out
            return r

        class FakeBernoulli:
            def __init__(self, probs=None, logits=None, **kw):
                self.probs = probs

            def sample(self, sample_shape=()):
                p = np.full(tuple(sample_shape), float(self.probs))
                return torch.tensor(np.asarray(fn(p), dtype=float), dtype=torch.get_default_dtype())

        torch.bernoulli = fake
        torch.distributions.Bernoulli = FakeBernoulli

    def stub_randperm(self, fn):
        torch = self.torch
        torch.randperm = lambda n, **kw: torch.tensor(np.asarray(fn(int(n)), dtype=np.int64))

    def stub_randint(self, fn):
        torch = self.torch

        def fake(*a, **kw):
            if len(a) >= 2 and not isinstance(a[1], (tuple, list)):
                raise RuntimeError("randint(low, high, ...) form is not scripted")
            high = a[0]
            size = kw.get("size", a[1] if len(a) > 1 else None)
            return torch.tensor(np.asarray(fn(int(high), tuple(size)), dtype=np.int64))

        torch.randint = fake

    def stub_randn(self, fn):
        torch = self.torch
        torch.randn = lambda *shape, **kw: torch.tensor(np.asarray(fn(tuple(shape)), dtype=float), dtype=kw.get("dtype") or torch.get_default_dtype())


def _sym_derivatives(B, f, arrays):
    """d f() / d theta for every entry of every array (row-major), symbolic: chain rule over the DAG"""
    S = B.S
    L = f()
    out = []
    for arr in arrays:
        flat = np.asarray(arr, dtype=object).reshape(-1)
        for v in flat:
            if isinstance(v, S.Sym) and v.op == "var":
                out.append(S.diff(L, v, {}))
            else:
                out.append(None)  # a parameter held constant (e.g. the phase network's auxiliary bias)
    return L, out


def _num_derivatives(B, f, params, arrays, step=2e-3):
    """fourth-order central finite differences of f() with respect to every entry of the module parameters"""
    L = f()
    out = []
    torch = B.torch
    for p, arr in zip(params, arrays):
        flat = p.data.view(-1)
        for i in range(flat.numel()):
            old = flat[i].item()
            vals = {}
            for kk in (-2, -1, 1, 2):
                with torch.no_grad():
                    flat[i] = old + kk * step
                vals[kk] = f()
            with torch.no_grad():
                flat[i] = old
            out.append((vals[-2] - 8 * vals[-1] + 8 * vals[1] - vals[2]) / (12 * step))
    return L, out


def derivatives(B, f, params, arrays):
    """(f(), [df/dtheta_k]) in the order of `params` (module parameter tensors) / `arrays` (their scalars)"""
    if B.symbolic:
        return _sym_derivatives(B, f, arrays)
    return _num_derivatives(B, f, params, arrays)
