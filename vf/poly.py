"""Exact sparse polynomial arithmetic over generator variables, fractions with factored
denominators, and the converter  Sym DAG -> Frac  (DESIGN.md 1.3).

Polynomials have *integer* coefficients; a monomial is a Python int with BITS bits per
variable (multiplying monomials = adding ints).  Variables carrying a square relation
(radicals R^2 -> u, circle sines S^2 -> 1 - C^2) are reduced to exponent <= 1, which is a
canonical normal form because the leading terms R^2, S^2 are pairwise coprime.
"""
from fractions import Fraction
from math import gcd, lcm
from . import sym as S

BITS = 8
EMASK = (1 << BITS) - 1
HIGH = EMASK & ~1  # bits set iff exponent >= 2
MAXEXP = EMASK - 8


class Unsupported(Exception):
    """the expression cannot be encoded (reported as inconclusive, never as a verdict)"""


class Ring:
    def __init__(self):
        self.names = []
        self.index = {}
        self.rel = {}  # var index -> Poly replacing var^2
        self.relmask = 0
        self.kind = {}  # var index -> 'E' positive generator, 'R' radical (>=0), 'C','S' circle, 'V' free, 'L' opaque
        self.meta = {}  # var index -> info (atom node, denominators, ...)

    def var(self, name, kind="V", meta=None):
        i = self.index.get(name)
        if i is None:
            i = len(self.names)
            self.names.append(name)
            self.index[name] = i
            self.kind[i] = kind
            self.meta[i] = meta
        return i

    def set_rel(self, i, poly):
        self.rel[i] = poly
        self.relmask |= HIGH << (BITS * i)

    def const(self, c):
        c = int(c)
        return Poly(self, {0: c} if c != 0 else {}, 0)

    def gen(self, i):
        return Poly(self, {1 << (BITS * i): 1}, 1)

    def mono_str(self, m):
        out = []
        i = 0
        while m:
            e = m & EMASK
            if e:
                out.append(self.names[i] + ("^%d" % e if e > 1 else ""))
            m >>= BITS
            i += 1
        return "*".join(out) if out else "1"

    def mono_items(self, m):
        i = 0
        while m:
            e = m & EMASK
            if e:
                yield i, e
            m >>= BITS
            i += 1


class Poly:
    __slots__ = ("ring", "t", "mx", "_key")

    def __init__(self, ring, terms, mx):
        self.ring = ring
        self.t = terms
        self.mx = mx  # upper bound on any single exponent
        self._key = None

    def is_zero(self):
        return not self.t

    def is_const(self):
        return not self.t or (len(self.t) == 1 and 0 in self.t)

    def const_value(self):
        return self.t.get(0, 0)

    def key(self):
        if self._key is None:
            self._key = frozenset(self.t.items())
        return self._key

    def __len__(self):
        return len(self.t)

    def __add__(self, o):
        if len(self.t) < len(o.t):
            self, o = o, self
        d = dict(self.t)
        for m, c in o.t.items():
            v = d.get(m, 0) + c
            if v:
                d[m] = v
            else:
                d.pop(m, None)
        return Poly(self.ring, d, max(self.mx, o.mx))

    def __neg__(self):
        return Poly(self.ring, {m: -c for m, c in self.t.items()}, self.mx)

    def __sub__(self, o):
        return self + (-o)

    def scale(self, c):
        c = int(c)
        if c == 0:
            return Poly(self.ring, {}, 0)
        if c == 1:
            return self
        return Poly(self.ring, {m: v * c for m, v in self.t.items()}, self.mx)

    def _rawmul(self, o):
        a, b = self.t, o.t
        if len(a) > len(b):
            a, b = b, a
        mx = self.mx + o.mx
        if mx > MAXEXP:
            mx = self._exact_mx() + o._exact_mx()
            if mx > MAXEXP:
                raise Unsupported("monomial exponent overflow")
        d = {}
        get = d.get
        if len(a) == 1:
            ((m1, c1),) = a.items()
            d = {m1 + m2: c1 * c2 for m2, c2 in b.items()}
        else:
            bi = list(b.items())
            for m1, c1 in a.items():
                for m2, c2 in bi:
                    m = m1 + m2
                    d[m] = get(m, 0) + c1 * c2
            d = {m: c for m, c in d.items() if c}
        return Poly(self.ring, d, mx)

    def _exact_mx(self):
        mx = 0
        for m in self.t:
            while m:
                e = m & EMASK
                if e > mx:
                    mx = e
                m >>= BITS
        self.mx = mx
        return mx

    def __mul__(self, o):
        return self._rawmul(o).reduce()

    def reduce(self):
        ring = self.ring
        rm = ring.relmask
        if not rm:
            return self
        cur = self
        while True:
            hit = [m for m in cur.t if m & rm]
            if not hit:
                return cur
            out = dict(cur.t)
            acc = {}
            mx = cur.mx
            for m in hit:
                c = out.pop(m)
                mm = m & rm
                # lowest variable with exponent >= 2
                low = (mm & -mm).bit_length() - 1
                v = low // BITS
                sh = BITS * v
                e = (m >> sh) & EMASK
                rest = m - ((e - (e & 1)) << sh)
                rp = ring.rel[v]
                k = e >> 1
                q = rp if k == 1 else rp.pow(k)
                for m2, c2 in q.t.items():
                    mn = rest + m2
                    acc[mn] = acc.get(mn, 0) + c * c2
                mx = max(mx, q.mx + cur.mx)
            for m, c in acc.items():
                v = out.get(m, 0) + c
                if v:
                    out[m] = v
                else:
                    out.pop(m, None)
            if mx > MAXEXP:
                p = Poly(ring, out, mx)
                if p._exact_mx() > MAXEXP:
                    raise Unsupported("monomial exponent overflow")
                cur = p
            else:
                cur = Poly(ring, out, mx)

    def pow(self, k):
        r = self.ring.const(1)
        b = self
        while k:
            if k & 1:
                r = r * b
            k >>= 1
            if k:
                b = b * b
        return r

    def content(self):
        g = 0
        for c in self.t.values():
            g = gcd(g, c)
            if g == 1:
                break
        return g

    def primitive(self):
        """(unit*content, primitive part with positive coefficient on the smallest monomial)"""
        if not self.t:
            return 0, self
        g = self.content()
        if self.t[min(self.t)] < 0:
            g = -g
        if g == 1:
            return 1, self
        return g, Poly(self.ring, {m: c // g for m, c in self.t.items()}, self.mx)

    def variables(self):
        vs = set()
        for m in self.t:
            for i, _ in self.ring.mono_items(m):
                vs.add(i)
        return vs

    def evalf(self, vals):
        """vals: list/dict var index -> float"""
        tot = 0.0
        for m, c in self.t.items():
            x = float(c)
            for i, e in self.ring.mono_items(m):
                x *= vals[i] ** e
            tot += x
        return tot

    def evalq(self, vals):
        tot = Fraction(0)
        for m, c in self.t.items():
            x = Fraction(c)
            for i, e in self.ring.mono_items(m):
                x *= vals[i] ** e
            tot += x
        return tot

    def __repr__(self):
        if not self.t:
            return "0"
        items = sorted(self.t.items())[:12]
        s = " + ".join("%d*%s" % (c, self.ring.mono_str(m)) for m, c in items)
        if len(self.t) > 12:
            s += " + ...(%d terms)" % len(self.t)
        return s


class Frac:
    """ s * prod(nf_i^a_i) / prod(df_j^b_j)

    s: Fraction; numerator and denominator are kept FACTORED (dict key -> (primitive Poly, exponent)); the numerator is
    expanded lazily (property .n) only when a sum needs it.  Common factors cancel by key in products, so e.g.
    p * (N / p^2) becomes N / p without any polynomial division."""

    __slots__ = ("s", "nf", "d", "_n")

    def __init__(self, s, n=None, d=None, nf=None):
        self.s = s
        self.d = d if d is not None else {}
        self._n = None
        if nf is not None:
            self.nf = nf
            return
        self.nf = {}
        if n is None:
            return
        if not n.t:
            self.s = Fraction(0)
            return
        self._absorb(n)

    def _absorb(self, n):
        """put polynomial n into the factored numerator: content -> scalar, common monomial -> generator factors"""
        u, pp = n.primitive()
        self.s = self.s * u
        if pp.is_const():
            return
        ring = pp.ring
        # common monomial of all terms
        g = None
        for m in pp.t:
            if g is None:
                g = m
            elif g:
                # per-variable minimum of exponents
                x, y, out, sh = g, m, 0, 0
                while x and y:
                    e = min(x & EMASK, y & EMASK)
                    out |= e << sh
                    x >>= BITS
                    y >>= BITS
                    sh += BITS
                g = out
            if g == 0:
                break
        if g:
            pp = Poly(ring, {m - g: c for m, c in pp.t.items()}, pp.mx)
            for i, e in ring.mono_items(g):
                gi = ring.gen(i)
                cur = self.nf.get(gi.key())
                self.nf[gi.key()] = (gi, e + (cur[1] if cur else 0))
            if pp.is_const():
                self.s = self.s * pp.const_value()
                return
            u2, pp = pp.primitive()
            self.s = self.s * u2
        cur = self.nf.get(pp.key())
        self.nf[pp.key()] = (pp, 1 + (cur[1] if cur else 0))

    @staticmethod
    def of_poly(p):
        return Frac(Fraction(1), p)

    @property
    def n(self):
        """expanded numerator polynomial (without the scalar s)"""
        r = self._n
        if r is None:
            for key, (p, e) in sorted(self.nf.items(), key=lambda kv: len(kv[1][0].t)):
                q = p if e == 1 else p.pow(e)
                r = q if r is None else r * q
            if r is None:
                any_ring = None
                for key, (p, e) in self.d.items():
                    any_ring = p.ring
                    break
                r = (any_ring or _DEFAULT_RING[0]).const(1)
            self._n = r
        return r

    def is_zero(self):
        return self.s == 0

    def _clean(self):
        """cancel factors common to numerator and denominator"""
        if not self.nf or not self.d:
            return self
        common = [k for k in self.nf if k in self.d]
        if not common:
            return self
        nf, d = dict(self.nf), dict(self.d)
        for k in common:
            p, a = nf[k]
            _, b = d[k]
            if a > b:
                nf[k] = (p, a - b)
                del d[k]
            elif b > a:
                d[k] = (p, b - a)
                del nf[k]
            else:
                del nf[k]
                del d[k]
        return Frac(self.s, None, d, nf=nf)

    @staticmethod
    def _lcm(d1, d2):
        if not d2:
            return d1
        if not d1:
            return d2
        out = dict(d1)
        for k, (p, e) in d2.items():
            cur = out.get(k)
            if cur is None or cur[1] < e:
                out[k] = (p, e)
        return out

    @staticmethod
    def _cof(dl, d):
        r = None
        for k, (p, e) in dl.items():
            cur = d.get(k)
            e2 = e - (cur[1] if cur is not None else 0)
            if e2 > 0:
                q = p if e2 == 1 else p.pow(e2)
                r = q if r is None else r * q
        return r

    def __add__(self, o):
        if self.is_zero():
            return o
        if o.is_zero():
            return self
        # factors common to both numerators stay factored
        common = {}
        for k, (p, a) in self.nf.items():
            c2 = o.nf.get(k)
            if c2 is not None:
                common[k] = (p, min(a, c2[1]))

        def rest(fr):
            r = None
            for k, (p, a) in sorted(fr.nf.items(), key=lambda kv: len(kv[1][0].t)):
                e = a - (common[k][1] if k in common else 0)
                if e > 0:
                    q = p if e == 1 else p.pow(e)
                    r = q if r is None else r * q
            return r

        dl = Frac._lcm(self.d, o.d)
        c1, c2 = Frac._cof(dl, self.d), Frac._cof(dl, o.d)
        n1, n2 = rest(self), rest(o)
        if c1 is not None:
            n1 = c1 if n1 is None else n1 * c1
        if c2 is not None:
            n2 = c2 if n2 is None else n2 * c2
        ring = _ring_of(self, o)
        if n1 is None:
            n1 = ring.const(1)
        if n2 is None:
            n2 = ring.const(1)
        s1, s2 = self.s, o.s
        L = lcm(s1.denominator, s2.denominator)
        a1 = s1.numerator * (L // s1.denominator)
        a2 = s2.numerator * (L // s2.denominator)
        g = gcd(a1, a2)
        n = n1.scale(a1 // g) + n2.scale(a2 // g)
        if n.is_zero():
            return Frac(Fraction(0))
        r = Frac(Fraction(g, L), n, dict(dl))
        for k, (p, e) in common.items():
            cur = r.nf.get(k)
            r.nf[k] = (p, e + (cur[1] if cur else 0))
        return r._clean()

    def __neg__(self):
        r = Frac(-self.s, None, self.d, nf=self.nf)
        r._n = self._n
        return r

    def __sub__(self, o):
        return self + (-o)

    def __mul__(self, o):
        if self.is_zero():
            return self
        if o.is_zero():
            return o
        if not o.nf and not o.d:
            r = Frac(self.s * o.s, None, self.d, nf=self.nf)
            r._n = self._n
            return r
        if not self.nf and not self.d:
            r = Frac(self.s * o.s, None, o.d, nf=o.nf)
            r._n = o._n
            return r
        nf = dict(self.nf)
        for k, (p, e) in o.nf.items():
            cur = nf.get(k)
            nf[k] = (p, e + (cur[1] if cur is not None else 0))
        if not self.d:
            d = o.d
        elif not o.d:
            d = self.d
        else:
            d = dict(self.d)
            for k, (p, e) in o.d.items():
                cur = d.get(k)
                d[k] = (p, e + (cur[1] if cur is not None else 0))
        return _reduce_rel_powers(Frac(self.s * o.s, None, d, nf=nf)._clean())

    def inv(self):
        if self.is_zero():
            raise ZeroDivisionError("inverse of the zero fraction")
        return Frac(1 / self.s, None, dict(self.nf), nf=dict(self.d))

    def pow(self, k):
        if k < 0:
            return self.inv().pow(-k)
        if k == 0:
            return Frac(Fraction(1))
        if k == 1:
            return self
        nf = {key: (p, e * k) for key, (p, e) in self.nf.items()}
        d = {key: (p, e * k) for key, (p, e) in self.d.items()}
        return _reduce_rel_powers(Frac(self.s ** k, None, d, nf=nf))

    def den_poly(self):
        r = None
        for k, (p, e) in self.d.items():
            q = p if e == 1 else p.pow(e)
            r = q if r is None else r * q
        return r if r is not None else _ring_of(self).const(1)

    def evalf(self, vals):
        x = float(self.s)
        for k, (p, e) in self.nf.items():
            x *= p.evalf(vals) ** e
        for k, (p, e) in self.d.items():
            x /= p.evalf(vals) ** e
        return x


_DEFAULT_RING = [None]


def _ring_of(*frs):
    for fr in frs:
        for tab in (fr.nf, fr.d):
            for k, (p, e) in tab.items():
                return p.ring
    return _DEFAULT_RING[0]


def _reduce_rel_powers(fr):
    """bare relation generators (radicals R, circle sines S) raised to a power >= 2 in the factored numerator or
    denominator are rewritten with their relation (R^2 -> u), keeping the normal form canonical"""
    hit = None
    for tab in (fr.nf, fr.d):
        for key, (p, e) in tab.items():
            if e >= 2 and len(p.t) == 1:
                ((m, c),) = p.t.items()
                if c == 1 and m and (m & (m - 1)) == 0 and (m.bit_length() - 1) % BITS == 0 and ((m.bit_length() - 1) // BITS) in p.ring.rel:
                    hit = True
                    break
        if hit:
            break
    if not hit:
        return fr
    s = fr.s
    out = Frac(Fraction(1))
    num = Frac(s)
    for tab, invert in ((fr.nf, False), (fr.d, True)):
        for key, (p, e) in tab.items():
            is_rel = False
            if e >= 2 and len(p.t) == 1:
                ((m, c),) = p.t.items()
                if c == 1 and m and (m & (m - 1)) == 0 and (m.bit_length() - 1) % BITS == 0:
                    v = (m.bit_length() - 1) // BITS
                    is_rel = v in p.ring.rel
            if is_rel:
                rel = Frac(Fraction(1), p.ring.rel[v]).pow(e // 2)
                if e % 2:
                    rel = rel * Frac(Fraction(1), None, {}, nf={key: (p, 1)})
                part = rel
            else:
                part = Frac(Fraction(1), None, {}, nf={key: (p, e)})
            num = num * (part.inv() if invert else part)
    return num


def lincomb(t, scale=Fraction(1), acc=None):
    """t == sum(coef * atom) + const ; key None = constant term"""
    if acc is None:
        acc = {}
    if isinstance(t, Fraction):
        acc[None] = acc.get(None, Fraction(0)) + scale * t
    elif t.op == "add":
        for u in t.args:
            lincomb(u, scale, acc)
    elif t.op == "mul" and isinstance(t.args[0], Fraction):
        rest = t.args[1:]
        r = rest[0] if len(rest) == 1 else S.Sym("mul", rest)
        lincomb(r, scale * t.args[0], acc)
    else:
        acc[t] = acc.get(t, Fraction(0)) + scale
    return acc


def canon(x, memo):
    """DAG -> DAG normalisation done before generator allocation:
    sqrt(exp(t)) -> exp(t/2);  sqrt(u)^2k -> u^k;  exp(log u) handled in Conv."""
    if not isinstance(x, S.Sym):
        return x
    r = memo.get(x)
    if r is not None:
        return r
    op = x.op
    if op == "var":
        r = x
    elif op == "add":
        r = S.addn(canon(a, memo) for a in x.args)
    elif op == "mul":
        r = S.muln(canon(a, memo) for a in x.args)
    elif op == "div":
        r = S.div(canon(x.args[0], memo), canon(x.args[1], memo))
    elif op == "pow":
        b = canon(x.args[0], memo)
        k = x.args[1]
        if isinstance(b, S.Sym) and b.op == "fn" and b.args[0] == "sqrt" and k % 2 == 0:
            r = S.power(b.args[1], k // 2)
        elif isinstance(b, S.Sym) and b.op == "fn" and b.args[0] == "abs" and k % 2 == 0:
            r = S.power(b.args[1], k)
        elif isinstance(b, S.Sym) and b.op == "fn" and b.args[0] == "exp":
            r = S.fn("exp", S.mul(Fraction(k), b.args[1]))
        else:
            r = S.power(b, k)
    elif op == "fn":
        name = x.args[0]
        args = [canon(a, memo) for a in x.args[1:]]
        a = args[0]
        if name == "sqrt" and isinstance(a, S.Sym) and a.op == "fn" and a.args[0] == "exp":
            r = S.fn("exp", S.mul(Fraction(1, 2), a.args[1]))
        elif name == "log" and isinstance(a, S.Sym) and a.op == "fn" and a.args[0] == "exp":
            r = a.args[1]
        elif name == "log" and isinstance(a, S.Sym) and a.op == "fn" and a.args[0] == "sqrt":
            r = S.mul(Fraction(1, 2), S.fn("log", a.args[1]))
        elif name == "abs" and isinstance(a, S.Sym) and a.op == "fn" and a.args[0] == "nonneg":
            r = a  # |x| = x for a value whose contract says x >= 0
        else:
            r = S.fn(name, *args)
    elif op == "clamp":
        r = S.clamp(canon(x.args[0], memo), x.args[1], x.args[2])
    else:
        raise Unsupported(op)
    memo[x] = r
    return r


def collect_denoms(roots):
    """per atom: lcm of coefficient denominators, separately for exp arguments and for angles"""
    qe, qa = {}, {}
    seen = set()
    todo = [r for r in roots if isinstance(r, S.Sym)]
    while todo:
        x = todo.pop()
        if not isinstance(x, S.Sym) or x in seen:
            continue
        seen.add(x)
        if x.op == "fn" and x.args[0] in ("exp", "cos", "sin") and isinstance(x.args[1], S.Sym):
            tab = qe if x.args[0] == "exp" else qa
            for atom, c in lincomb(x.args[1]).items():
                if atom is None:
                    continue
                if x.args[0] == "exp" and atom.op == "fn" and atom.args[0] == "log":
                    todo.append(atom.args[1])
                    continue
                tab[atom] = lcm(tab.get(atom, 1), c.denominator)
                todo.append(atom)
            continue
        if x.op == "var":
            continue
        for a in x.args:
            if isinstance(a, S.Sym):
                todo.append(a)
    return qe, qa


class Conv:
    """canonicalised Sym DAG -> Frac over generators.

    oracle: object with  implied_nonneg(frac) / implied_pos(frac) -> bool  (z3-backed, solve.py)
    """

    def __init__(self, roots, oracle=None):
        self.cmemo = {}
        self.roots = [canon(r, self.cmemo) for r in roots]
        self.qe, self.qa = collect_denoms(self.roots)
        self.ring = Ring()
        _DEFAULT_RING[0] = self.ring
        self.cache = {}
        self.oracle = oracle
        self.assume_pos = {}  # canon node -> reason (log argument > 0)
        self.assume_nonneg = {}  # radicands
        self.assume_nonzero = {}  # divisors / atan2 radii
        self.radkeys = {}
        self.opaque = []
        self.one = Frac(Fraction(1))
        self.zero = Frac(Fraction(0))

    def canon(self, x):
        return canon(x, self.cmemo)

    def convert(self, x):
        """x: original (un-canonicalised) DAG node or Fraction"""
        return self.f(self.canon(x))

    def const(self, c):
        c = Fraction(c)
        if c == 0:
            return self.zero
        return Frac(c)

    def convert_grouped(self, pairs):
        """pairs: [(Fraction coefficient, original DAG node)]; the linear combination is flattened through
        additions and the addends are summed per denominator signature.  Returns the list of per-group sums
        (Fracs with pairwise different denominators); their total is the value of the combination."""
        groups = {}
        acc = {}
        for coef, x in pairs:
            lincomb(self.canon(x), Fraction(coef), acc)  # identical addends on both sides cancel here, unconverted
        for atom, c in acc.items():
            if c == 0:
                continue
            fr = self.const(c) if atom is None else self.f(atom) * self.const(c)
            if fr.is_zero():
                continue
            sig = frozenset((k, e) for k, (p, e) in fr.d.items())
            cur = groups.get(sig)
            groups[sig] = fr if cur is None else cur + fr
        return [g for g in groups.values() if not g.is_zero()]

    def total(self, groups):
        return self._sum(list(groups)) if groups else self.zero

    def f(self, x):
        if isinstance(x, Fraction):
            return self.const(x)
        r = self.cache.get(x)
        if r is not None:
            return r
        op = x.op
        if op == "var":
            i = self.ring.var(x.args[0], "V", x)
            r = Frac(Fraction(1), self.ring.gen(i))
        elif op == "add":
            r = self._sum([self.f(a) for a in x.args])
        elif op == "mul":
            r = self.f(x.args[0])
            for a in x.args[1:]:
                r = r * self.f(a)
        elif op == "div":
            den = self.f(x.args[1])
            if den.is_zero():
                raise ZeroDivisionError("symbolic division by an identically zero expression")
            self.assume_nonzero.setdefault(x.args[1], "divisor")
            r = self.f(x.args[0]) * den.inv()
        elif op == "pow":
            b = self.f(x.args[0])
            k = x.args[1]
            if k < 0:
                self.assume_nonzero.setdefault(x.args[0], "divisor")
            r = b.pow(k)
        elif op == "fn":
            r = self.fn(x)
        elif op == "clamp":
            inner = self.f(x.args[0])
            lo, hi = x.args[1], x.args[2]
            ok = self.oracle is not None
            if ok and lo is not None:
                ok = self.oracle.implied_nonneg(inner - self.const(lo))
            if ok and hi is not None:
                ok = self.oracle.implied_nonneg(self.const(hi) - inner)
            if ok:
                r = inner
            elif getattr(self, "assume_clamp", False):
                if not hasattr(self, "clamp_assumed"):
                    self.clamp_assumed = []
                self.clamp_assumed.append(
                    "clamp to [%s, %s] assumed inactive for %s" % (lo and float(lo), hi and float(hi), repr(x.args[0])[:120])
                )
                r = inner
            else:
                # a clamp that can be active for some parameter values: an opaque real K (lo <= K <= hi, K == argument inside the
                # range).  Goals through it leave a residual; the solver layer then looks for a parameter point where the clamp IS
                # active (targeted search, Problem._clamp_points) and decides the goal there.
                if not hasattr(self, "clamp_nodes"):
                    self.clamp_nodes = []
                self.clamp_nodes.append(x)
                i = self._opaque_var("K", x, [inner, self.const(lo if lo is not None else 0), self.const(hi if hi is not None else 0)])
                r = Frac(Fraction(1), self.ring.gen(i))
        else:
            raise Unsupported(op)
        self.cache[x] = r
        return r

    def _sum(self, fs):
        # balanced summation keeps intermediate numerators smaller
        fs = [f for f in fs if not f.is_zero()]
        if not fs:
            return self.zero
        while len(fs) > 1:
            nxt = []
            for i in range(0, len(fs) - 1, 2):
                nxt.append(fs[i] + fs[i + 1])
            if len(fs) % 2:
                nxt.append(fs[-1])
            fs = nxt
        return fs[0]

    # -- generators -------------------------------------------------------------------------
    def ge(self, atom):
        q = self.qe.get(atom, 1)
        nm = "E%d_%d" % (q, atom.id)
        i = self.ring.var(nm, "E", (atom, q))
        return Frac(Fraction(1), self.ring.gen(i))

    def circle(self, atom):
        q = self.qa.get(atom, 1)
        cn, sn = "C%d_%d" % (q, atom.id), "S%d_%d" % (q, atom.id)
        if sn not in self.ring.index:
            ci = self.ring.var(cn, "C", (atom, q))
            si = self.ring.var(sn, "S", (atom, q))
            c = self.ring.gen(ci)
            self.ring.set_rel(si, self.ring.const(1) - c * c)
        ci, si = self.ring.index[cn], self.ring.index[sn]
        return Frac(Fraction(1), self.ring.gen(ci)), Frac(Fraction(1), self.ring.gen(si))

    def radical(self, node, u):
        """sqrt(u), u a Frac.  sqrt(s*N/D) = sqrt(a*b*N*D) / (b*D)  with s = a/b, D > 0 required."""
        if u.is_zero():
            return self.zero
        # denominator factors with an even exponent whose sign is unknown: sqrt(N / (p^2k q)) = sqrt(N/q) / sqrt(p^2k),
        # with sqrt(p^2k) (= |p|^k) a radical generator of its own (R >= 0, R^2 = p^2k); valid wherever p != 0
        if u.d and self.oracle is not None:
            even = {k: (p, e) for k, (p, e) in u.d.items() if e % 2 == 0 and not self.oracle.implied_pos(Frac(Fraction(1), p))}
            if even:
                rest_d = {k: v for k, v in u.d.items() if k not in even}
                inner = self.radical(node, Frac(u.s, None, rest_d, nf=dict(u.nf)))
                for k, (p, e) in even.items():
                    sq = S.Sym("fn", ("sqrt", S.Sym("var", ("radicand!%d!%d" % (node.id, len(self.radkeys)),))))
                    inner = inner * self.radical(sq, Frac(Fraction(1), p.pow(e))).inv()
                return inner
        a, b = u.s.numerator, u.s.denominator
        if a < 0:
            raise Unsupported("radicand with negative leading scalar")
        den = u.den_poly() if u.d else None
        if den is not None and not (self.oracle is not None and self.oracle.implied_pos(Frac(Fraction(1), den))):
            raise Unsupported("sqrt of a fraction whose denominator is not provably positive")
        inner = u.n if den is None else u.n * den
        g, pp = inner.primitive()
        if g < 0:
            raise Unsupported("radicand with negative content")
        c = a * b * g
        # pull out the square part of the integer c
        sq = 1
        k = 2
        cc = c
        while k * k <= cc and k < 2000:
            while cc % (k * k) == 0:
                cc //= k * k
                sq *= k
            k += 1
        rad = pp.scale(cc)
        if rad.is_const():
            cv = rad.const_value()
            key = ("const", cv)
            if cv == 1:
                r = self.one
            else:
                nm = self.radkeys.get(key)
                if nm is None:
                    nm = "R_%d" % node.id
                    self.radkeys[key] = nm
                    i = self.ring.var(nm, "R", node)
                    self.ring.set_rel(i, rad)
                r = Frac(Fraction(1), self.ring.gen(self.ring.index[nm]))
        else:
            key = rad.key()
            nm = self.radkeys.get(key)
            if nm is None:
                nm = "R_%d" % node.id
                self.radkeys[key] = nm
                i = self.ring.var(nm, "R", node)
                self.ring.set_rel(i, rad)
            r = Frac(Fraction(1), self.ring.gen(self.ring.index[nm]))
        r = r * self.const(Fraction(sq, b))
        if den is not None:
            r = r * Frac(Fraction(1), den).inv()
        return r

    # -- congruence for opaque applications (bare log / atan2): equal arguments share one variable
    def _fp_vals(self):
        """deterministic pseudo-random point of the variety (values for every ring variable so far)"""
        vals = getattr(self, "_fpv", None)
        if vals is None:
            vals = self._fpv = []
        import math, random

        ring = self.ring
        for i in range(len(vals), len(ring.names)):
            rnd = random.Random(i * 7717 + 3)
            k = ring.kind[i]
            if k == "E":
                v = rnd.uniform(0.4, 2.5)
            elif k == "C":
                v = rnd.uniform(-0.9, 0.9)
            elif k == "S":
                v = math.sqrt(max(ring.rel[i].evalf(vals + [0.0]), 0.0)) * (1 if rnd.random() < 0.5 else -1)
            elif k == "R":
                v = math.sqrt(max(ring.rel[i].evalf(vals + [0.0]), 0.0))
            else:
                v = rnd.uniform(-1.5, 1.5)
            vals.append(v)
        return vals

    def _opaque_var(self, prefix, node, argfracs):
        tab = getattr(self, "_opq", None)
        if tab is None:
            tab = self._opq = []
        try:
            vals = self._fp_vals()
            fp = [fr.evalf(vals) for fr in argfracs]
        except (ZeroDivisionError, OverflowError, ValueError):
            fp = None
        if fp is not None:
            for (pfx, ofp, ofr, idx) in tab:
                if pfx != prefix or ofp is None or len(ofp) != len(fp):
                    continue
                if all(abs(p - q) <= 1e-9 * (abs(p) + abs(q)) + 1e-12 for p, q in zip(fp, ofp)):
                    if all((f1 - f2).is_zero() for f1, f2 in zip(argfracs, ofr)):
                        return idx
        i = self.ring.var("%s_%d" % (prefix, node.id), "L", node)
        tab.append((prefix, fp, argfracs, i))
        return i

    def fn(self, x):
        name, a = x.args[0], x.args[1]
        if name == "exp":
            if isinstance(a, Fraction):
                # e^c for a non-zero rational c: an opaque positive constant (no algebraic relation is known to the solver)
                i = self._opaque_var("X", x, [self.const(a)])
                return Frac(Fraction(1), self.ring.gen(i))
            r = self.one
            for atom, c in lincomb(a).items():
                if c == 0:
                    continue
                if atom is None:
                    cst = S.fn("exp", c)
                    i = self._opaque_var("X", cst, [self.const(c)])
                    r = r * Frac(Fraction(1), self.ring.gen(i))
                    continue
                if atom.op == "fn" and atom.args[0] == "log":
                    u = atom.args[1]
                    self.assume_pos.setdefault(u, "log argument")
                    if c.denominator == 1:
                        b = self.f(u)
                    elif c.denominator == 2:
                        b = self.f(S.fn("sqrt", u))
                    else:
                        raise Unsupported("exp(%s * log u)" % c)
                    k = c.numerator
                else:
                    if atom.op != "var":
                        self.opaque.append(atom)
                    b = self.ge(atom)
                    kk = c * self.qe.get(atom, 1)
                    if kk.denominator != 1:
                        raise Unsupported("generator denominator not prepared")
                    k = int(kk)
                r = r * b.pow(k)
            return r
        if name in ("cos", "sin"):
            if isinstance(a, Fraction):
                # cos / sin of a non-zero rational constant: an opaque real constant (no relation between the two is used)
                i = self._opaque_var("T" + name, x, [self.const(a)])
                return Frac(Fraction(1), self.ring.gen(i))
            cc, ss = self.one, self.zero
            for atom, co in lincomb(a).items():
                if co == 0:
                    continue
                if atom is None:
                    raise Unsupported("cos/sin with a constant offset")
                if atom.op == "fn" and atom.args[0] == "atan2" and self.qa.get(atom, 1) == 1:
                    yy, xx = atom.args[1], atom.args[2]
                    rad = S.fn("sqrt", S.add(S.power(yy, 2), S.power(xx, 2)))
                    self.assume_nonzero.setdefault(rad, "atan2 radius")
                    Rinv = self.f(rad).inv()
                    cb, sb = self.f(xx) * Rinv, self.f(yy) * Rinv
                else:
                    if atom.op != "var":
                        self.opaque.append(atom)
                    cb, sb = self.circle(atom)
                nn = co * self.qa.get(atom, 1)
                if nn.denominator != 1:
                    raise Unsupported("angle denominator not prepared")
                n = int(nn)
                if n < 0:
                    sb, n = -sb, -n
                for _ in range(n):
                    cc, ss = cc * cb - ss * sb, ss * cb + cc * sb
            self.cache[S.fn("cos", a)] = cc
            self.cache[S.fn("sin", a)] = ss
            return cc if name == "cos" else ss
        if name == "sqrt":
            if isinstance(a, Fraction):
                if a < 0:
                    raise Unsupported("sqrt of a negative constant")
                return self.radical(x, self.const(a))
            self.assume_nonneg.setdefault(a, "radicand")
            return self.radical(x, self.f(a))
        if name == "log":
            if isinstance(a, Fraction):
                if a <= 0:
                    raise Unsupported("log of a non-positive constant")
            else:
                self.assume_pos.setdefault(a, "log argument")
            i = self._opaque_var("L", x, [self.f(a)])
            return Frac(Fraction(1), self.ring.gen(i))
        if name == "atan2":
            i = self._opaque_var("A", x, [self.f(a), self.f(x.args[2])])
            return Frac(Fraction(1), self.ring.gen(i))
        if name == "softplus_thr":
            i = self._opaque_var("P", x, [self.f(a), self.const(x.args[2])])
            return Frac(Fraction(1), self.ring.gen(i))
        if name in ("remainder", "fmod"):
            # opaque real (no algebraic relation to its argument is used): identities that need x mod m == x are not provable
            i = self._opaque_var("M", x, [self.f(a), self.f(x.args[2])])
            return Frac(Fraction(1), self.ring.gen(i))
        if name == "nonneg":
            # value of an environment stub whose documented contract is x >= 0 (listed as an assumption unless implied)
            if not isinstance(a, Fraction):
                self.assume_nonneg.setdefault(a, "stub contract")
            return self.f(a)
        if name == "abs":
            inner = self.f(a)
            if self.oracle is not None and self.oracle.implied_nonneg(inner):
                return inner
            if self.oracle is not None and self.oracle.implied_nonneg(-inner):
                return -inner
            raise Unsupported("abs of an expression of undetermined sign")
        raise Unsupported(name)
