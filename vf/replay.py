"""bin/replay <file>: re-evaluates the recorded goal on the real torch; exit 1 if it still fails."""
import json
import sys


def main(argv):
    rec = json.load(open(argv[0]))
    if rec.get("kind") == "script":
        import subprocess
        from .harness import pyenv, PY

        p = subprocess.run([PY, "-c", rec["script"]], env=pyenv(), capture_output=True, text=True)
        print(p.stdout[-3000:], p.stderr[-1500:])
        return 1 if p.returncode != 0 else 0
    if rec.get("kind") == "pathfork":
        from .e2 import replay_pathfork

        ok, detail = replay_pathfork(rec)
        print(json.dumps(dict(inputs=rec["inputs"], ok=ok, detail=str(detail)), indent=1))
        if ok:
            print("NOT reproduced: the post-condition holds on these inputs")
            return 0
        print("REPRODUCED on the real code: property=%s inputs=%s" % (rec["property"], rec["inputs"]))
        return 1
    from .harness import real_eval

    job = dict(module=rec["module"], scenario=rec["scenario"], kwargs=rec["kwargs"])
    rr = real_eval(job, rec["theta"])
    if rr.get("error"):
        print("replay could not run:", rr["error"])
        return 2
    e = rr["evals"].get(rec["goal"])
    print(json.dumps(dict(goal=rec["goal"], result=e), indent=1))
    if e is None:
        return 2
    if e["ok"]:
        print("NOT reproduced: the goal holds at the recorded parameter point")
        return 0
    print("REPRODUCED on the real code: property=%s goal=%s" % (rec["property"], rec["goal"]))
    return 1


if __name__ == "__main__":
    sys.exit(main(sys.argv[1:]))
